(* Model/CoalesceHeap.v — CoalesceMessages with its maps as heap cells.
   Go maps are references: Data() hands out the message's cached map, event.Data / User.IDs /
   User.SELinux are maps the event owns, event.Paths holds the PATH messages' cached maps themselves.
   This model keeps every statement of aucoalesce/coalesce.go that writes into a map as a write to a
   location (hupd), every make / map literal / copyData as an allocation (halloc), and every read
   through a reference as hread.  Proofs/CoalesceHeapProofs.v shows that all writes land in cells
   allocated by the call itself, and that the event read back from the heap is the event of the
   functional model (Check/ChkCoalesce.v) the correspondence check runs against the implementation. *)
From Coq Require Import List Ascii String NArith ZArith Bool Arith.
Import ListNotations.
Require Import KV Parser ChkCoalesce.
Require MsgTypes Dec.
Local Close Scope N_scope.
Local Open Scope nat_scope.
Local Open Scope list_scope.
Local Notation length := List.length.

Definition loc := nat.
Definition heap := list kvs.
Definition hread (h : heap) (l : loc) : kvs := nth l h [].
Definition halloc (h : heap) (v : kvs) : heap * loc := (h ++ [v], length h).
Fixpoint hset (h : heap) (l : loc) (v : kvs) : heap :=
  match h, l with
  | [], _ => []
  | _ :: r, O => v :: r
  | x :: r, S l' => x :: hset r l' v
  end.
Definition hupd (h : heap) (l : loc) (f : kvs -> kvs) : heap := hset h l (f (hread h l)).

(* a message: its record type and the location of the map Data() returns (None: Data() fails) *)
Record hrec := MkHrec { hr_type : N; hr_data : option loc }.
Definition to_rec (h : heap) (r : hrec) : rec := MkRec (hr_type r) 0%N 0%Z 0%N (option_map (hread h) (hr_data r)) [].

(* an event: Data, User.IDs and User.SELinux are maps of its own; Paths are references *)
Record hev := { he_data : loc; he_ids : loc; he_sel : loc; he_result : option str; he_session : option str; he_paths : list loc;
                he_args : option (list str); he_warn : nat; he_src : option kvs; he_dst : option kvs }.
Definition deref (h : heap) (e : hev) : mev :=
  {| m_data := hread h (he_data e); m_ids := hread h (he_ids e); m_sel := hread h (he_sel e); m_result := he_result e; m_session := he_session e;
     m_paths := map (hread h) (he_paths e); m_args := he_args e; m_warn := he_warn e; m_src := he_src e; m_dst := he_dst e |}.
Definition warn_h (e : hev) : hev :=
  {| he_data := he_data e; he_ids := he_ids e; he_sel := he_sel e; he_result := he_result e; he_session := he_session e; he_paths := he_paths e;
     he_args := he_args e; he_warn := S (he_warn e); he_src := he_src e; he_dst := he_dst e |}.

(* newEvent's range loop: event.User.IDs[k] = v / event.User.SELinux[k[5:]] = v / event.Data[k] = v *)
Definition dstep_h (e : hev) (h : heap) (kv : str * str) : heap :=
  let '(k, v) := kv in
  if isS k "result" then h else if isS k "ses" then h
  else if has_suffix (L "uid") k || has_suffix (L "gid") k then hupd h (he_ids e) (put k v)
  else if has_prefix (L "subj_") k then hupd h (he_sel e) (put (skipn 5 k) v)
  else hupd h (he_data e) (put k v).

(* newEvent(msg, syscall): sys tells whether the SYSCALL record of a compound event is used *)
Definition new_event_h (h : heap) (sys : bool) (data : option loc) : heap * hev :=
  let '(h1, ld) := halloc h [] in                         (* Data: make(map[string]string, 10) *)
  let '(h2, li) := halloc h1 [] in                        (* User.IDs *)
  let '(h3, ls) := halloc h2 [] in                        (* User.SELinux *)
  let e0 := {| he_data := ld; he_ids := li; he_sel := ls; he_result := None; he_session := None; he_paths := []; he_args := None;
               he_warn := 0; he_src := None; he_dst := None |} in
  match data with
  | None => (h3, warn_h e0)
  | Some l =>
      let '(h4, c) := halloc h3 (hread h3 l) in           (* data = copyData(data) *)
      let h5 := if sys then hupd h4 c (del (L "items")) else h4 in       (* delete(data, "items") *)
      let d := hread h5 c in
      let e1 := {| he_data := ld; he_ids := li; he_sel := ls;
                   he_result := Some (match fget (L "result") d with Some x => x | None => L "unknown" end);
                   he_session := fget (L "ses") d; he_paths := []; he_args := None; he_warn := 0; he_src := None; he_dst := None |} in
      let h6 := hupd h5 c (del (L "result")) in           (* delete(data, "result") *)
      let h7 := hupd h6 c (del (L "ses")) in              (* delete(data, "ses") *)
      (fold_left (dstep_h e1) (hread h7 c) h7, e1)
  end.

(* addFieldsToEventData: for k, v := range data { if found in event.Data: warn; else event.Data[k] = v } *)
Definition af_step_h (s : heap * hev) (kv : str * str) : heap * hev :=
  let '(h, e) := s in
  match fget (fst kv) (hread h (he_data e)) with
  | Some _ => (h, warn_h e)
  | None => (hupd h (he_data e) (put (fst kv) (snd kv)), e)
  end.
Definition add_fields_h (h : heap) (e : hev) (l : loc) : heap * hev := fold_left af_step_h (hread h l) (h, e).

(* addExecveRecord: works on a copy, from which it deletes every argument it has taken *)
Fixpoint take_args_h (fuel : nat) (i count : N) (h : heap) (c : loc) (acc : list str) : heap * option (list str) :=
  match fuel with
  | O => (h, Some (rev acc))
  | S f => if (count <=? i)%N then (h, Some (rev acc))
           else match fget (L "a" ++ Dec.dec i) (hread h c) with
                | Some v => take_args_h f (i + 1)%N count (hupd h c (del (L "a" ++ Dec.dec i))) c (v :: acc)   (* delete(data, key) *)
                | None => (h, None)
                end
  end.
Definition with_args (e : hev) (a : list str) : hev :=
  {| he_data := he_data e; he_ids := he_ids e; he_sel := he_sel e; he_result := he_result e; he_session := he_session e; he_paths := he_paths e;
     he_args := Some a; he_warn := he_warn e; he_src := he_src e; he_dst := he_dst e |}.
Definition add_execve_h (h : heap) (e : hev) (l : loc) : heap * hev :=
  let '(h1, c) := halloc h (hread h l) in                 (* data = copyData(data) *)
  match fget (L "argc") (hread h1 c) with
  | None => (h1, warn_h e)
  | Some argc =>
      let h2 := hupd h1 (he_data e) (put (L "argc") argc) in           (* event.Data["argc"] = argc *)
      match argc with
      | [] => (h2, warn_h e)
      | _ => match read_num digit_of 10 argc 0%N with
             | Some cnt => if (cnt <? 2 ^ 32)%N then
                             match take_args_h (S (length (hread h2 c))) 0 cnt h2 c [] with
                             | (h3, Some args) => (h3, with_args e args)
                             | (h3, None) => (h3, warn_h e)
                             end
                           else (h2, warn_h e)
             | None => (h2, warn_h e)
             end
      end
  end.

(* addSockaddrRecord: reads the message's map, writes event.Data["socket_"+k] *)
Definition add_sockaddr_h (h : heap) (e : hev) (l : loc) : heap * hev :=
  let d := hread h l in
  match fget (L "syscall") (hread h (he_data e)) with
  | None => (h, warn_h e)
  | Some sc =>
      let h1 := fold_left (fun a kv => hupd a (he_data e) (put (L "socket_" ++ fst kv) (snd kv))) d h in
      let mk src dst := {| he_data := he_data e; he_ids := he_ids e; he_sel := he_sel e; he_result := he_result e; he_session := he_session e;
                           he_paths := he_paths e; he_args := he_args e; he_warn := he_warn e; he_src := src; he_dst := dst |} in
      if isS sc "recvfrom" || isS sc "recvmsg" || isS sc "accept" || isS sc "accept4"
      then (h1, mk (match addr_of d with Some a => Some a | None => he_src e end) (he_dst e))
      else if isS sc "connect" || isS sc "sendto" || isS sc "sendmsg"
      then (h1, mk (he_src e) (match addr_of d with Some a => Some a | None => he_dst e end))
      else (h1, mk (he_src e) (he_dst e))
  end.

Definition is_syscall_h (r : hrec) : bool := (hr_type r =? MsgTypes.AUDIT_SYSCALL)%N.
Definition route_h (s : heap * hev) (r : hrec) : heap * hev :=
  let '(h, e) := s in
  if is_syscall_h r then s
  else match hr_data r with
       | None => (h, warn_h e)
       | Some l =>
           if (hr_type r =? MsgTypes.AUDIT_PATH)%N
           then (h, {| he_data := he_data e; he_ids := he_ids e; he_sel := he_sel e; he_result := he_result e; he_session := he_session e;
                       he_paths := he_paths e ++ [l];                   (* event.Paths = append(event.Paths, data): the message's own map *)
                       he_args := he_args e; he_warn := he_warn e; he_src := he_src e; he_dst := he_dst e |})
           else if (hr_type r =? MsgTypes.AUDIT_SOCKADDR)%N then add_sockaddr_h h e l
           else if (hr_type r =? MsgTypes.AUDIT_EXECVE)%N then add_execve_h h e l
           else add_fields_h h e l
       end.

Definition is_eoe_h (r : hrec) : bool := (hr_type r =? MsgTypes.AUDIT_EOE)%N.
Definition filter_eoe_h (rs : list hrec) : list hrec :=
  match rev rs with l :: front => if is_eoe_h l then rev front else rs | [] => rs end.
Definition coalesce_h (h : heap) (rs : list hrec) : heap * option hev :=
  match filter_eoe_h rs with
  | [] => (h, None)
  | [r] => let '(h1, e) := new_event_h h false (hr_data r) in (h1, Some e)
  | l => match find is_syscall_h l with
         | None => (h, None)
         | Some sc => let '(h1, e0) := new_event_h h true (hr_data sc) in
                      let '(h2, e) := fold_left route_h l (h1, e0) in (h2, Some e)
         end
  end.
