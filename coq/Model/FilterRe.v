From Coq Require Import List Ascii String Bool Arith Lia.
Import ListNotations.
Open Scope nat_scope.

Definition str := list ascii.
Definition s (x : string) : str := list_ascii_of_string x.
Definition nat_of (c : ascii) := nat_of_ascii c.
Definition is_word (c : ascii) : bool :=
  let n := nat_of c in ((48 <=? n) && (n <=? 57)) || ((65 <=? n) && (n <=? 90)) || ((97 <=? n) && (n <=? 122)) || (n =? 95).
Definition is_blank (c : ascii) : bool := let n := nat_of c in (n =? 9) || (n =? 10) || (n =? 12) || (n =? 13) || (n =? 32).

Fixpoint span (p : ascii -> bool) (l : str) : str * str :=
  match l with
  | c :: r => if p c then let (a, b) := span p r in (c :: a, b) else ([], l)
  | [] => ([], [])
  end.
Fixpoint strip_prefix (p l : str) : option str :=
  match p, l with
  | [], _ => Some l
  | a :: p', b :: l' => if Ascii.eqb a b then strip_prefix p' l' else None
  | _, [] => None
  end.
Definition ops : list str := map s ["<="; ">="; "&="; "="; "!="; "<"; ">"; "&"]%string.
(* leftmost-first alternation followed by (.+): first alternative that matches and leaves a non-empty rest *)
Fixpoint pick_op (os : list str) (l : str) : option (str * str) :=
  match os with
  | [] => None
  | o :: os' => match strip_prefix o l with
                | Some (c :: r) => Some (o, c :: r)
                | _ => pick_op os' l
                end
  end.
(* model of  ^(\w+)\s*(<=|>=|&=|=|!=|<|>|&)(.+)$  with (?s) *)
Definition scan_filter (v : str) : option (str * str * str) :=
  let (w, r1) := span is_word v in
  match w with
  | [] => None
  | _ => let (_, r2) := span is_blank r1 in
         match pick_op ops r2 with Some (o, rhs) => Some (w, o, rhs) | None => None end
  end.

Lemma span_app p l : let (a, b) := span p l in l = a ++ b /\ forallb p a = true.
Proof. induction l as [|c r IH]; cbn; auto. destruct (p c) eqn:E; cbn; auto. destruct (span p r) as [a b]. destruct IH as [-> H]. cbn. rewrite E. auto. Qed.
Lemma strip_prefix_app p : forall l r, strip_prefix p l = Some r -> l = p ++ r.
Proof. induction p as [|a p IH]; intros [|b l] r H; cbn in *; try discriminate; try (inversion H; auto; fail).
  destruct (Ascii.eqb a b) eqn:E; try discriminate. apply Ascii.eqb_eq in E. subst. f_equal. apply IH; auto. Qed.
Lemma pick_op_spec os : forall l o rhs, pick_op os l = Some (o, rhs) -> In o os /\ l = o ++ rhs /\ rhs <> [].
Proof. induction os as [|o' os IH]; intros l o rhs H; cbn in H; try discriminate.
  destruct (strip_prefix o' l) as [[|c r]|] eqn:E.
  - destruct (IH _ _ _ H) as (?&?&?); cbn; auto.
  - inversion H; subst. apply strip_prefix_app in E. repeat split; cbn; auto. discriminate.
  - destruct (IH _ _ _ H) as (?&?&?); cbn; auto.
Qed.

(* "field, operator and value are the complete text before, at and after the operator" *)
Theorem scan_filter_complete v lhs o rhs : scan_filter v = Some (lhs, o, rhs) ->
  exists ws, v = lhs ++ ws ++ o ++ rhs /\ lhs <> [] /\ forallb is_word lhs = true /\ forallb is_blank ws = true /\ In o ops /\ rhs <> [].
Proof.
  unfold scan_filter. pose proof (span_app is_word v) as H1. destruct (span is_word v) as [w r1]. destruct H1 as [-> Hw].
  destruct w as [|c w]; try discriminate.
  pose proof (span_app is_blank r1) as H2. destruct (span is_blank r1) as [ws r2]. destruct H2 as [-> Hb].
  destruct (pick_op ops r2) as [[o' rhs']|] eqn:E; try discriminate. intros H; inversion H; subst.
  apply pick_op_spec in E. destruct E as (Ho & -> & Hr). exists ws. repeat split; auto. discriminate.
Qed.
Print Assumptions scan_filter_complete.
Eval vm_compute in map scan_filter (map s ["uid=0"; "path=/tmp/my dir"; "!!uid=0"; "a0&=5"; "a<="; "a <= 5"; "key==x"; "=5"; "uid"; "uid="]%string).
