(* Model/Header.v (prototype, split formulation) — parseAuditHeader and the C04 round trip for the audit(S.mmm:N) header. *)
From Coq Require Import List Ascii String NArith ZArith Bool Lia ZifyBool ZifyN ZifyNat.
Import ListNotations.
Require Import Dec.
Open Scope N_scope.
Local Arguments N.mul : simpl never.
Local Arguments N.add : simpl never.

Definition s (x : string) : str := list_ascii_of_string x.
Definition ceq (a b : ascii) : bool := N_of_ascii a =? N_of_ascii b.

(* first occurrence of c: text before it and text after it (strings.IndexRune + slicing) *)
Fixpoint split_at (c : ascii) (l : str) : option (str * str) :=
  match l with
  | [] => None
  | d :: r => if ceq c d then Some ([], r) else match split_at c r with Some (a, b) => Some (d :: a, b) | None => None end
  end.

(* strconv.ParseInt(s, 10, 64) / ParseUint(s, 10, 32) restricted to what the header needs: optional sign for Int *)
Inductive hres (A : Type) := HOk (a : A) | HErr.
Arguments HOk {A}. Arguments HErr {A}.
Definition parse_uint10 (bits : N) (t : str) : hres N :=
  match parse_dec t with Some n => if n <? 2 ^ bits then HOk n else HErr | None => HErr end.
Definition parse_int10_64 (t : str) : hres Z :=
  match t with
  | c :: r => if N_of_ascii c =? 45 then match parse_dec r with Some n => if n <=? 2 ^ 63 then HOk (Z.opp (Z.of_N n)) else HErr | None => HErr end
              else let body := if N_of_ascii c =? 43 then r else t in
                   match parse_dec body with Some n => if n <? 2 ^ 63 then HOk (Z.of_N n) else HErr | None => HErr end
  | [] => HErr
  end.

Record header := { h_sec : Z; h_msec : Z; h_seq : N; h_after : str }.   (* h_after = text after the closing paren *)
Definition parse_audit_header (line : str) : hres header :=
  match split_at "("%char line with None => HErr | Some (_, r1) =>
  match split_at "."%char r1 with None => HErr | Some (secs, r2) =>
  match split_at ":"%char r2 with None => HErr | Some (msecs, r3) =>
  match split_at ")"%char r3 with None => HErr | Some (seqs, rest) =>
  match parse_int10_64 secs with HErr => HErr | HOk sec =>
  match parse_int10_64 msecs with HErr => HErr | HOk msec =>
  match parse_uint10 32 seqs with HErr => HErr | HOk sq =>
    HOk {| h_sec := sec; h_msec := msec; h_seq := sq; h_after := rest |} end end end end end end end.

(* ---- spec side: how the kernel writes the header ---- *)
Definition dec3 (m : N) : str := [digit_char (m / 100); digit_char ((m / 10) mod 10); digit_char (m mod 10)].
Definition render_header (pre : str) (S m N : N) (rest : str) : str :=
  pre ++ s "(" ++ dec S ++ s "." ++ dec3 m ++ s ":" ++ dec N ++ s ")" ++ rest.

(* ---- lemmas ---- *)
Lemma split_at_app c a b : forallb (fun d => negb (ceq c d)) a = true -> split_at c (a ++ c :: b) = Some (a, b).
Proof.
  induction a as [|d a IH]; intros H; cbn [app split_at].
  - unfold ceq. rewrite N.eqb_refl. auto.
  - cbn in H. apply andb_prop in H. destruct H as [H1 H2]. apply negb_true_iff in H1. rewrite H1. rewrite IH; auto.
Qed.
Lemma digits_no_char c t : is_digit c = false -> forallb is_digit t = true -> forallb (fun d => negb (ceq c d)) t = true.
Proof.
  intros Hc. induction t as [|d t IH]; intros H; cbn in *; auto. apply andb_prop in H. destruct H as [H1 H2]. rewrite IH by auto.
  rewrite andb_true_r. apply negb_true_iff. unfold ceq. apply N.eqb_neq. intros E.
  unfold is_digit in *. rewrite <- E in H1. congruence.
Qed.
Lemma dec3_digits m : m < 1000 -> forallb is_digit (dec3 m) = true.
Proof.
  intros H. unfold dec3. cbn [forallb]. rewrite !is_digit_digit_char; auto.
  - apply N.mod_lt; lia. - apply N.mod_lt; lia. - apply N.div_lt_upper_bound; lia.
Qed.
Lemma parse_dec3 m : m < 1000 -> parse_dec (dec3 m) = Some m.
Proof.
  intros H. unfold dec3, parse_dec. cbn [parse_aux].
  assert (m / 100 < 10) by (apply N.div_lt_upper_bound; lia).
  assert ((m / 10) mod 10 < 10) by (apply N.mod_lt; lia). assert (m mod 10 < 10) by (apply N.mod_lt; lia).
  rewrite !is_digit_digit_char, !digit_val_digit_char by auto. f_equal.
  pose proof (N.div_mod m 10 ltac:(lia)). pose proof (N.div_mod (m / 10) 10 ltac:(lia)).
  assert (m / 100 = m / 10 / 10) by (rewrite N.div_div by lia; reflexivity).
  set (a := m / 10) in *. set (b := a / 10) in *. set (r0 := m mod 10) in *. set (r1 := a mod 10) in *. clearbody a b r0 r1. lia.
Qed.
Lemma parse_int_dec n : n < 2 ^ 63 -> parse_int10_64 (dec n) = HOk (Z.of_N n).
Proof.
  intros H. pose proof (parse_dec_dec n) as Hp. pose proof (dec_all_digits n) as Hd.
  destruct (dec n) as [|c r] eqn:E. cbn in Hp. discriminate.
  cbn in Hd. apply andb_prop in Hd. destruct Hd as [Hc _]. unfold parse_int10_64.
  assert (N_of_ascii c =? 45 = false) by (unfold is_digit in Hc; lia). assert (N_of_ascii c =? 43 = false) by (unfold is_digit in Hc; lia).
  rewrite H0, H1, Hp. replace (n <? 2^63) with true by lia. auto.
Qed.
Lemma parse_int_dec3 m : m < 1000 -> parse_int10_64 (dec3 m) = HOk (Z.of_N m).
Proof.
  intros H. pose proof (parse_dec3 m H) as Hp. unfold parse_int10_64. unfold dec3 in *.
  assert (m / 100 < 10) by (apply N.div_lt_upper_bound; lia).
  rewrite N_of_digit_char by auto. replace (48 + m / 100 =? 45) with false by lia. replace (48 + m / 100 =? 43) with false by lia.
  rewrite Hp. replace (m <? 2^63) with true; auto. symmetry. apply N.ltb_lt. change (2^63) with 9223372036854775808. lia.
Qed.

Definition not_digit_chars : is_digit "."%char = false /\ is_digit ":"%char = false /\ is_digit ")"%char = false.
Proof. repeat split; reflexivity. Qed.

(* C04, header part: any prefix without an opening paren, any rest (bodies containing parens, colons, dots, "msg=" …) *)
Theorem parse_render_header pre S m N rest :
  forallb (fun d => negb (ceq "("%char d)) pre = true -> S < 2 ^ 34 -> m < 1000 -> N < 2 ^ 32 ->
  parse_audit_header (render_header pre S m N rest) =
    HOk {| h_sec := Z.of_N S; h_msec := Z.of_N m; h_seq := N; h_after := rest |}.
Proof.
  intros Hpre HS Hm HN. unfold parse_audit_header, render_header. destruct not_digit_chars as (Hd1 & Hd2 & Hd3).
  change (s "(") with ["("%char]. change (s ".") with ["."%char]. change (s ":") with [":"%char]. change (s ")") with [")"%char].
  cbn [app]. rewrite split_at_app by auto.
  rewrite split_at_app by (apply digits_no_char; auto; apply dec_all_digits).
  replace (dec3 m ++ ":"%char :: dec N ++ ")"%char :: rest) with (dec3 m ++ ":"%char :: (dec N ++ ")"%char :: rest)) by auto.
  rewrite split_at_app by (apply digits_no_char; auto; apply dec3_digits; auto).
  rewrite split_at_app by (apply digits_no_char; auto; apply dec_all_digits).
  rewrite parse_int_dec by (change (2^34) with 17179869184 in HS; change (2^63) with 9223372036854775808; lia).
  rewrite parse_int_dec3 by auto. unfold parse_uint10. rewrite parse_dec_dec. replace (N <? 2^32) with true by lia. auto.
Qed.
Print Assumptions parse_render_header.
Eval vm_compute in parse_audit_header (s "audit(1490137971.011:50406): a=(b.c:d)").
