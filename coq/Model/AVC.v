(* Model/Enrich.v (prototype, AVC part) — a scanner equal to auparse.selinuxAVCMessageRegex
   (avc: spaces word spaces brace spaces ANY spaces brace spaces for spaces) under leftmost-first semantics;
   returns the FindStringSubmatchIndex-style pieces used by normalizeAuditMessage:
   (seresult, raw perms text, remainder after the match). *)
From Coq Require Import List Ascii NArith Bool Arith Lia.
Import ListNotations.
Require Import KV.

Definition is_word (c : ascii) : bool :=
  let n := code c in ((48 <=? n) && (n <=? 57)) || ((65 <=? n) && (n <=? 90)) || ((97 <=? n) && (n <=? 122)) || (n =? 95).
Definition is_nl (c : ascii) : bool := code c =? 10.

Fixpoint strip_prefix (p l : str) : option str :=
  match p, l with
  | [], _ => Some l
  | a :: p', b :: l' => if Nat.eqb (code a) (code b) then strip_prefix p' l' else None
  | _, [] => None
  end.
Definition lit (l : list nat) : str := map ascii_of_nat l.
Definition AVC := lit [97;118;99;58].            (* avc: *)
Definition FOR := lit [102;111;114].             (* for *)

(* spaces+ *)
Definition spaces1 (s : str) : option str := let (a, r) := span is_space s in match a with [] => None | _ => Some r end.
(* tail after the captured text:  spaces* brace spaces+ for spaces+  ; returns the remainder after the match *)
Definition tail_here (s : str) : option str :=
  let (_, r) := span is_space s in
  match r with
  | c :: r1 => if code c =? 125 then
      match spaces1 r1 with None => None | Some r2 =>
      match strip_prefix FOR r2 with None => None | Some r3 => spaces1 r3 end end
    else None
  | [] => None
  end.
(* (.* ) greedy, no newline: the LONGEST prefix X of s (within the line) whose remainder satisfies tail_here.
   Implemented by scanning left to right and remembering the last success. *)
Fixpoint longest (s : str) (x_rev : str) (best : option (str * str)) : option (str * str) :=
  let best' := match tail_here s with Some rest => Some (rev x_rev, rest) | None => best end in
  match s with
  | [] => best'
  | c :: r => if is_nl c then best' else longest r (c :: x_rev) best'
  end.

Definition avc_here (s : str) : option (str * str * str) :=
  match strip_prefix AVC s with None => None | Some r0 =>
  match spaces1 r0 with None => None | Some r1 =>
  let (w, r2) := span is_word r1 in
  match w with [] => None | _ =>
  match spaces1 r2 with None => None | Some r3 =>
  match r3 with
  | c :: r4 => if code c =? 123 then
       let (_, r5) := span is_space r4 in
       match longest r5 [] None with Some (x, rest) => Some (w, x, rest) | None => None end
     else None
  | [] => None
  end end end end end.

Fixpoint avc_find (fuel : nat) (s : str) : option (str * str * str) :=
  match fuel with
  | O => None
  | S f => match avc_here s with
           | Some r => Some r
           | None => match s with [] => None | _ :: tl => avc_find f tl end
           end
  end.
Definition avc_match (s : str) : option (str * str * str) := avc_find (S (length s)) s.
