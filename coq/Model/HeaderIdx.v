(* Model/HeaderIdx.v — parseAuditHeader, Parse and ParseLogLine of auparse/auparse.go with every slice
   expression explicit: `slice s lo hi` is None where Go would panic (lo > hi or hi > len).  The split
   formulation of Model/Header.v / Model/Parser.v - the one the correspondence check runs - has no index
   arithmetic left; Proofs/HeaderIdxProofs.v shows that this reading never reaches a None, for every input,
   and that it computes the same pieces. *)
From Coq Require Import List Ascii String NArith ZArith Bool Arith Lia.
Import ListNotations.
Require Import Dec KV Trim Header Parser.
Local Close Scope N_scope.
Local Open Scope nat_scope.
Local Open Scope list_scope.
Local Notation length := List.length.

Definition slice (s : str) (lo hi : nat) : option str :=
  if (lo <=? hi) && (hi <=? length s) then Some (firstn (hi - lo) (skipn lo s)) else None.
Definition slice_from (s : str) (lo : nat) : option str := slice s lo (length s).
(* strings.IndexRune for an ASCII rune = index of the first such byte *)
Fixpoint index_char (c : ascii) (s : str) : option nat :=
  match s with [] => None | d :: r => if ceq c d then Some 0 else option_map S (index_char c r) end.

Inductive pres (A : Type) := POk (a : A) | PErr | PPanic.
Arguments POk {A}. Arguments PErr {A}. Arguments PPanic {A}.

(* parseAuditHeader up to the strconv calls: the three number texts and `end` *)
Definition header_pieces (line : str) : pres (str * str * str * nat) :=
  match index_char "("%char line with None => PErr | Some start =>
  match slice_from line start with None => PPanic | Some l1 =>                 (* line[start:] *)
  match index_char "."%char l1 with None => PErr | Some d0 => let dot := d0 + start in
  match slice_from line dot with None => PPanic | Some l2 =>                   (* line[dot:] *)
  match index_char ":"%char l2 with None => PErr | Some s0 => let sep := s0 + dot in
  match slice_from line sep with None => PPanic | Some l3 =>                   (* line[sep:] *)
  match index_char ")"%char l3 with None => PErr | Some e0 => let end_ := e0 + sep in
  match slice line (start + 1) dot, slice line (dot + 1) sep, slice line (sep + 1) end_ with
  | Some a, Some b, Some c => POk (a, b, c, end_)                              (* line[start+1:dot], line[dot+1:sep], line[sep+1:end] *)
  | _, _, _ => PPanic
  end end end end end end end end.

(* Parse after the header: message[end:] for indexOfMessage *)
Definition parse_tail (message : str) (end_ : nat) : pres str :=
  match slice_from message end_ with Some t => POk t | None => PPanic end.

(* ParseLogLine: typName := line[len("type="):msgIndex-1]; msg := line[msgIndex+len("msg="):] *)
Definition log_line_pieces (line : str) : pres (str * str) :=
  match sindex (L "msg=") line with
  | None => PErr
  | Some mi => if mi <? 6 then PErr
               else match slice line 5 (mi - 1), slice_from line (mi + 4) with
                    | Some t, Some m => POk (t, m)
                    | _, _ => PPanic
                    end
  end.
