(* Model/Parser.v — auparse: ParseLogLine, Parse, and AuditMessage.Data()/Tags():
   normalisation per record type, key=value extraction (Model/KV.v), value
   trimming and placeholder dropping, nested msg='...', and enrichData in the
   order of the code.  Outcomes: Some (sorted-insensitive association list, tags)
   or None for the error result. *)
From Coq Require Import List Ascii String NArith ZArith Bool Arith Lia.
Import ListNotations.
Require Import KV Trim AVC Header.
Require Bytes MsgType Hex Dec Errno Arch Syscalls MsgTypes Signals.
Local Close Scope N_scope.
Local Close Scope Z_scope.
Local Open Scope nat_scope.
Local Open Scope list_scope.
Local Notation length := List.length.

Definition L (x : string) : str := list_ascii_of_string x.
Fixpoint beq (a b : str) : bool :=
  match a, b with [], [] => true | x :: a', y :: b' => Ascii.eqb x y && beq a' b' | _, _ => false end.
Definition isS (a : str) (b : string) : bool := beq a (L b).

(* ---------- small string library (Go's strings package on ASCII data) ---------- *)
Fixpoint has_prefix (p s : str) : bool :=
  match p, s with [], _ => true | a :: p', b :: s' => Ascii.eqb a b && has_prefix p' s' | _, [] => false end.
Fixpoint index_of (fuel : nat) (p s : str) : option nat :=       (* strings.Index *)
  match fuel with
  | O => None
  | S f => if has_prefix p s then Some O else match s with [] => None | _ :: r => option_map S (index_of f p r) end
  end.
Definition sindex (p s : str) : option nat := index_of (S (length s)) p s.
(* strings.Replace(s, old, new, n) for non-empty old *)
Fixpoint replace_n (fuel n : nat) (old new s : str) : str :=
  match fuel with
  | O => s
  | S f => match n with
           | O => s
           | S n' => if has_prefix old s then new ++ replace_n f n' old new (skipn (length old) s)
                     else match s with [] => [] | c :: r => c :: replace_n f n old new r end
           end
  end.
Definition sreplace (s old new : str) (n : nat) : str := replace_n (S (length s)) n old new s.
Definition in_set (cs : str) (c : ascii) : bool := existsb (Ascii.eqb c) cs.
Fixpoint drop_while (p : ascii -> bool) (s : str) : str := match s with c :: r => if p c then drop_while p r else s | [] => [] end.
Definition trim_right (cs : str) (s : str) : str := rev (drop_while (in_set cs) (rev s)).
Definition trim_set (cs : str) (s : str) : str := trim_right cs (drop_while (in_set cs) s).
Fixpoint split_on (c : ascii) (s : str) (cur : str) : list str :=
  match s with [] => [rev cur] | x :: r => if Ascii.eqb x c then rev cur :: split_on c r [] else split_on c r (x :: cur) end.
(* strings.SplitN(s, sep, n) for a one-byte separator and n >= 1 *)
Fixpoint splitn (c : ascii) (n : nat) (s : str) (cur : str) : list str :=
  match n with
  | O => []
  | S O => [rev cur ++ s]
  | S n' => match s with [] => [rev cur] | x :: r => if Ascii.eqb x c then rev cur :: splitn c n' r [] else splitn c n r (x :: cur) end
  end.
Definition is_fields_space (c : ascii) : bool := let n := code c in ((9 <=? n) && (n <=? 13)) || (n =? 32).
Fixpoint fields_go (s : str) (cur : str) : list str :=          (* strings.Fields *)
  match s with
  | [] => match cur with [] => [] | _ => [rev cur] end
  | c :: r => if is_fields_space c then match cur with [] => fields_go r [] | _ => rev cur :: fields_go r [] end else fields_go r (c :: cur)
  end.
Fixpoint join (sep : str) (l : list str) : str := match l with [] => [] | [x] => x | x :: r => x ++ sep ++ join sep r end.
Definition lower (c : ascii) : ascii := let n := code c in if (65 <=? n) && (n <=? 90) then ascii_of_nat (n + 32) else c.

(* decimal and hexadecimal readers of strconv as the parser uses them *)
Definition digit_of (c : ascii) : option N := let n := N_of_ascii c in if ((48 <=? n) && (n <=? 57))%N then Some (n - 48)%N else None.
Definition hexdigit_of (c : ascii) : option N :=
  let n := N_of_ascii c in
  if ((48 <=? n) && (n <=? 57))%N then Some (n - 48)%N else if ((97 <=? n) && (n <=? 102))%N then Some (n - 87)%N
  else if ((65 <=? n) && (n <=? 70))%N then Some (n - 55)%N else None.
Fixpoint read_num (dig : ascii -> option N) (base : N) (s : str) (acc : N) : option N :=
  match s with [] => Some acc | c :: r => match dig c with Some d => read_num dig base r (acc * base + d)%N | None => None end end.
(* optional sign, then digits (no underscores: base is explicit); result if |v| fits in bits *)
Definition parse_int (dig : ascii -> option N) (base : N) (bits : N) (s : str) : option Z :=
  let '(neg, body) := match s with c :: r => if code c =? 45 then (true, r) else if code c =? 43 then (false, r) else (false, s) | [] => (false, []) end in
  match body with
  | [] => None
  | _ => match read_num dig base body 0%N with
         | Some n => if neg then (if (n <=? 2 ^ (bits - 1))%N then Some (- Z.of_N n)%Z else None)
                     else (if (n <? 2 ^ (bits - 1))%N then Some (Z.of_N n) else None)
         | None => None end
  end.
Definition atoi (s : str) : option Z := parse_int digit_of 10 64 s.
Definition itoa (z : Z) : str :=
  if (z <? 0)%Z then L "-" ++ Dec.dec (Z.to_N (- z)) else Dec.dec (Z.to_N z).

(* ---------- hex.go ---------- *)
Definition hex_decode (s : str) : option str := match Hex.decode_upper_hex s with inr b => Some b | inl _ => None end.
Definition nul : ascii := ascii_of_nat 0.
Definition hex_to_strings (s : str) : option (list str) := option_map (fun b => split_on nul b []) (hex_decode s).
Definition hex_to_string (s : str) : option str :=
  option_map (fun b => match split_on nul b [] with x :: _ => x | [] => [] end) (hex_decode s).
Definition hex_to_dec (s : str) : option Z := parse_int hexdigit_of 16 32 s.      (* strconv.ParseInt(h, 16, 32) *)

(* net.IP(16 bytes).String() *)
Fixpoint words16 (b : list N) : list N := match b with h :: lo :: r => (h * 256 + lo)%N :: words16 r | _ => [] end.
Definition hexlow (n : N) : str :=                                   (* %x without padding *)
  let fix go (fuel : nat) (n : N) (acc : str) := match fuel with O => acc | S f =>
      let d := (n mod 16)%N in let c := ascii_of_N (if (d <? 10)%N then 48 + d else 87 + d)%N in
      if (n / 16 =? 0)%N then c :: acc else go f (n / 16)%N (c :: acc) end in go 5%nat n [].
(* longest run of zero words (length >= 2), first one wins *)
Fixpoint zero_runs (ws : list N) (i : nat) (cur_start cur_len : nat) (best_start best_len : nat) : nat * nat :=
  match ws with
  | [] => if (best_len <? cur_len)%nat then (cur_start, cur_len) else (best_start, best_len)
  | w :: r => if (w =? 0)%N then zero_runs r (S i) (if (cur_len =? 0)%nat then i else cur_start) (S cur_len) best_start best_len
              else let '(bs, bl) := if (best_len <? cur_len)%nat then (cur_start, cur_len) else (best_start, best_len) in
                   zero_runs r (S i) 0 0 bs bl
  end.
Definition dotted (a b c d : N) : str := Dec.dec a ++ L "." ++ Dec.dec b ++ L "." ++ Dec.dec c ++ L "." ++ Dec.dec d.
Fixpoint ip6_emit (ws : list N) (i skip zs zl : nat) : str :=
  match ws with
  | [] => []
  | w :: r =>
      match skip with
      | S k => ip6_emit r (S i) k zs zl                               (* inside the compressed run *)
      | O => if (2 <=? zl) && (i =? zs) then L "::" ++ ip6_emit r (S i) (zl - 1) zs zl
             else (if (0 <? i) && negb ((2 <=? zl) && (i =? zs + zl)) then L ":" else []) ++ hexlow w ++ ip6_emit r (S i) 0 zs zl
      end
  end.
Definition ip16_string (b : list N) : str :=
  match b with
  | [0;0;0;0;0;0;0;0;0;0;255;255;a;b';c;d]%N => dotted a b' c d                  (* IPv4-mapped *)
  | _ => let ws := words16 b in let '(zs, zl) := zero_runs ws 0 0 0 0 0 in ip6_emit ws 0 0 zs zl
  end.
Definition hex_to_ip (h : str) : option str :=
  if (length h =? 8)%nat then
    match h with
    | [a1;a2;b1;b2;c1;c2;d1;d2] =>
        let q x y := match hex_to_dec [x; y] with Some z => Z.to_N z | None => 0%N end in   (* errors are ignored by the code *)
        Some (itoa (match hex_to_dec [a1;a2] with Some z => z | None => 0%Z end) ++ L "." ++
              itoa (match hex_to_dec [b1;b2] with Some z => z | None => 0%Z end) ++ L "." ++
              itoa (match hex_to_dec [c1;c2] with Some z => z | None => 0%Z end) ++ L "." ++
              itoa (match hex_to_dec [d1;d2] with Some z => z | None => 0%Z end))
    | _ => None end
  else if (length h =? 32)%nat then
    (* encoding/hex.DecodeString: both cases *)
    let fix pairs (s : str) : option (list N) :=
        match s with
        | [] => Some []
        | x :: y :: r => match hexdigit_of x, hexdigit_of y, pairs r with Some a, Some b, Some t => Some ((a * 16 + b)%N :: t) | _, _, _ => None end
        | _ => None end in
    option_map ip16_string (pairs h)
  else None.

(* ---------- sockaddr.go ---------- *)
Definition kvlist := list (str * (str * str)).          (* key -> (orig, value) *)
Fixpoint kv_get (k : str) (m : kvlist) : option (str * str) :=
  match m with [] => None | (k', v) :: r => if beq k k' then Some v else kv_get k r end.
Fixpoint kv_del (k : str) (m : kvlist) : kvlist :=
  match m with [] => [] | (k', v) :: r => if beq k k' then kv_del k r else (k', v) :: kv_del k r end.
Definition kv_add (k : str) (v : str * str) (m : kvlist) : kvlist := (k, v) :: kv_del k m.
Definition kv_setval (k v : str) (m : kvlist) : kvlist := match kv_get k m with Some (o, _) => kv_add k (o, v) m | None => m end.
Definition newf (v : str) : str * str := (v, v).

Definition sub (s : str) (lo hi : nat) : str := firstn (hi - lo) (skipn lo s).
Definition parse_sockaddr (s : str) : option (list (str * str)) :=
  if (length s <? 4)%nat then None else
  match hex_to_dec (sub s 2 4 ++ sub s 0 2) with
  | None => None
  | Some fam =>
      if (fam =? 1)%Z then option_map (fun p => [(L "family", L "unix"); (L "path", p)]) (hex_to_string (skipn 4 s))
      else if (fam =? 2)%Z then
        if (length s <? 16)%nat then None else
        match hex_to_dec (sub s 4 8), hex_to_ip (sub s 8 16) with
        | Some port, Some ip => Some [(L "family", L "ipv4"); (L "addr", ip); (L "port", itoa port)]
        | _, _ => None end
      else if (fam =? 10)%Z then
        if (length s <? 48)%nat then None else
        match hex_to_dec (sub s 4 8), hex_to_dec (sub s 8 16), hex_to_ip (sub s 16 48) with
        | Some port, Some flow, Some ip =>
            Some ([(L "family", L "ipv6"); (L "addr", ip); (L "port", itoa port)] ++ (if (0 <? flow)%Z then [(L "flow", itoa flow)] else []))
        | _, _, _ => None end
      else if (fam =? 16)%Z then Some [(L "family", L "netlink"); (L "saddr", s)]
      else Some [(L "family", itoa fam); (L "saddr", s)]
  end.

(* ---------- normalizeAuditMessage, extractKeyValuePairs ---------- *)
Definition T (n : N) : N := n.
Definition normalize (ty : N) (msg : str) : str :=
  if (ty =? MsgTypes.AUDIT_AVC)%N then
    match avc_match msg with
    | None => msg
    | Some (w, perms, rest) => L "seresult=" ++ w ++ L " seperms=" ++ join (L ",") (fields_go perms []) ++ L " " ++ rest
    end
  else if (ty =? MsgTypes.AUDIT_LOGIN)%N then sreplace (sreplace msg (L "old ") (L "old_") 2) (L "new ") (L "new_") 2
  else if ((ty =? MsgTypes.AUDIT_CRED_DISP) || (ty =? MsgTypes.AUDIT_USER_START) || (ty =? MsgTypes.AUDIT_USER_END))%N
  then trim_right (L ")'") (sreplace msg (L " (hostname=") (L " hostname=") 2)
  else msg.

Definition trim_qs (v : str) : str := trim_set (L "'"" ") v.
Definition placeholder (v : str) : bool := isS v "" || isS v "?" || isS v "?," || isS v "(null)".
Fixpoint extract (depth : nat) (msg : str) (acc : kvlist) : kvlist :=
  match depth with
  | O => acc
  | S d =>
      fold_left (fun a kv =>
                   let '(k, orig) := kv in
                   let v := trim_qs orig in
                   if placeholder v then a
                   else if isS k "msg" then
                     (* the nested pairs are collected in a map of their own and then added one by one *)
                     fold_left (fun a' e => kv_add (fst e) (snd e) a') (rev (extract d v [])) a
                   else kv_add k (orig, v) a)
                (kv_find_all msg) acc
  end.

(* ---------- enrichData ---------- *)
Definition lookup_tab {V} (k : Z) (t : list (Z * V)) : option V := Bytes.alookup Z.eqb k t.
Definition S2 (x : string) : str := list_ascii_of_string x.

Definition normalize_unset (k : string) (m : kvlist) : kvlist :=
  match kv_get (L k) m with Some (_, v) => if isS v "4294967295" || isS v "-1" then kv_setval (L k) (L "unset") m else m | None => m end.
Definition selinux_ctx (k : string) (m : kvlist) : kvlist :=
  match kv_get (L k) m with
  | None => m
  | Some (_, v) =>
      let parts := splitn ":"%char 5 v [] in
      let names := [L "_user"; L "_role"; L "_domain"; L "_level"; L "_category"] in
      fold_left (fun a pn => kv_add (L k ++ snd pn) (newf (fst pn)) a) (combine parts names) (kv_del (L k) m)
  end.
Definition do_result (m : kvlist) : kvlist :=
  let '(found, m') := match kv_get (L "success") m with
                      | Some f => (Some f, kv_del (L "success") m)
                      | None => match kv_get (L "res") m with Some f => (Some f, kv_del (L "res") m) | None => (None, m) end end in
  match found with
  | None => m'
  | Some (_, v) => let lv := map lower v in
                   if isS lv "yes" || isS lv "1" || has_prefix (L "suc") lv then kv_add (L "result") (newf (L "success")) m'
                   else kv_add (L "result") (newf (L "fail")) m'
  end.
Definition do_exit (m : kvlist) : kvlist :=
  match kv_get (L "exit") m with
  | Some (_, v) => match atoi v with
                   | Some code => if (code <? 0)%Z then match lookup_tab (- code)%Z Errno.errno_to_name with Some n => kv_setval (L "exit") (S2 n) m | None => m end else m
                   | None => m end
  | None => m
  end.
Definition soh : ascii := ascii_of_nat 1.
Definition do_key (m : kvlist) : kvlist * list str :=
  match kv_get (L "key") m with
  | None => (m, [])
  | Some (orig, v) =>
      let m' := kv_del (L "key") m in
      match hex_decode orig with
      | Some b => (m', split_on soh b [])
      | None => match splitn "="%char 2 v [] with [a] => (m', [a]) | [_; b] => (m', [b]) | _ => (m', []) end
      end
  end.
Definition hex_field (k : string) (m : kvlist) : option kvlist :=      (* None = key not found *)
  match kv_get (L k) m with
  | None => None
  | Some (orig, _) => match hex_to_strings orig with Some l => Some (kv_setval (L k) (join (L " ") l) m) | None => Some m end
  end.
Definition opt_or (a : option kvlist) (d : kvlist) := match a with Some x => x | None => d end.

Definition arch_name (v : Z) : str :=
  match Bytes.lookupN (Z.to_N (v mod 2^32)) Arch.arch_names with
  | Some n => S2 n
  | None => L "unknown[" ++ (let fix hx (fuel : nat) (n : N) (acc : str) := match fuel with O => acc | S f =>
                let d := (n mod 16)%N in let c := ascii_of_N (if (d <? 10)%N then 48 + d else 87 + d)%N in
                if (n / 16 =? 0)%N then c :: acc else hx f (n / 16)%N (c :: acc) end in hx 9%nat (Z.to_N (v mod 2^32)) []) ++ L "]"
  end.
Definition do_arch (m : kvlist) : option kvlist :=
  match kv_get (L "arch") m with
  | None => None
  | Some (_, v) => match parse_int hexdigit_of 16 64 v with Some a => Some (kv_setval (L "arch") (arch_name a) m) | None => None end
  end.
Definition do_syscall (m : kvlist) : option kvlist :=
  match kv_get (L "syscall") m with
  | None => None
  | Some (_, v) =>
      match atoi v with
      | None => None
      | Some n => match kv_get (L "arch") m with
                  | None => None
                  | Some (_, a) => match Bytes.lookupS a Syscalls.syscalls with
                                   | Some t => match lookup_tab n t with Some nm => Some (kv_setval (L "syscall") (S2 nm) m) | None => Some m end
                                   | None => Some m end
                  end
      end
  end.
Definition do_signal (m : kvlist) : option kvlist :=
  match kv_get (L "sig") m with
  | None => None
  | Some (_, v) => match atoi v with
                   | None => None
                   | Some n => match lookup_tab n Signals.signal_names with Some nm => Some (kv_setval (L "sig") (S2 nm) m) | None => Some m end
                   end
  end.
Definition do_saddr (m : kvlist) : option kvlist :=
  match kv_get (L "saddr") m with
  | None => None
  | Some (_, v) => match parse_sockaddr v with
                   | None => None
                   | Some kvs => Some (fold_left (fun a e => kv_add (fst e) (newf (snd e)) a) kvs (kv_del (L "saddr") m))
                   end
  end.
Fixpoint execve_loop (fuel : nat) (i count : N) (m : kvlist) : option kvlist :=
  match fuel with
  | O => Some m          (* never reached: fuel exceeds the number of fields *)
  | S f => if (count <=? i)%N then Some m
           else let key := L "a" ++ Dec.dec i in
                match kv_get key m with
                | None => None
                | Some (orig, _) => execve_loop f (i + 1)%N count (match hex_to_string orig with Some a => kv_setval key a m | None => m end)
                end
  end.
Definition do_execve (m : kvlist) : option kvlist :=
  match kv_get (L "argc") m with
  | None => None
  | Some (_, v) => match read_num digit_of 10 v 0%N with
                   | Some c => match v with [] => None | _ => if (c <? 2^32)%N then execve_loop (S (length m)) 0 c m else None end
                   | None => None end
  end.

Definition bind (a : option kvlist) (f : kvlist -> option kvlist) := match a with Some x => f x | None => None end.
Definition enrich (ty : N) (m0 : kvlist) : option (kvlist * list str) :=
  let m1 := normalize_unset "ses" (normalize_unset "old-auid" (normalize_unset "auid" m0)) in
  let m2 := do_exit (do_result (selinux_ctx "subj" m1)) in
  let '(m3, tags) := do_key m2 in
  let m4 := opt_or (hex_field "cwd" m3) m3 in
  let r :=
    if (ty =? MsgTypes.AUDIT_SECCOMP)%N then bind (bind (bind (do_signal m4) do_arch) do_syscall) (hex_field "exe")
    else if (ty =? MsgTypes.AUDIT_SYSCALL)%N then bind (bind (do_arch m4) do_syscall) (hex_field "exe")
    else if (ty =? MsgTypes.AUDIT_SOCKADDR)%N then do_saddr m4
    else if (ty =? MsgTypes.AUDIT_PROCTITLE)%N then hex_field "proctitle" m4
    else if (ty =? MsgTypes.AUDIT_USER_CMD)%N then hex_field "cmd" m4
    else if ((ty =? MsgTypes.AUDIT_TTY) || (ty =? MsgTypes.AUDIT_USER_TTY))%N then hex_field "data" m4
    else if (ty =? MsgTypes.AUDIT_EXECVE)%N then do_execve m4
    else if (ty =? MsgTypes.AUDIT_PATH)%N then let m5 := selinux_ctx "obj" m4 in Some (opt_or (hex_field "name" m5) m5)
    else if (ty =? MsgTypes.AUDIT_USER_LOGIN)%N then Some (opt_or (hex_field "acct" m4) m4)
    else Some m4 in
  option_map (fun m => (m, tags)) r.

(* Data() and Tags() of a message with the given record type, RawData and offset *)
Definition data_of (ty : N) (raw : str) (offset : option nat) : option (list (str * str) * list str) :=
  match offset with
  | None => None
  | Some off =>
      let msg := normalize ty (skipn off raw) in
      match enrich ty (rev (extract 40 msg [])) with
      | Some (m, tags) => Some (map (fun e => (fst e, snd (snd e))) m, tags)
      | None => None
      end
  end.

(* ---------- Parse / ParseLogLine ---------- *)
Definition s64 (z : Z) : Z := ((z + 2^63) mod 2^64 - 2^63)%Z.
Record amsg := { a_type : N; a_sec : Z; a_nsec : Z; a_seq : N; a_raw : str; a_off : option nat }.
Fixpoint index_func (p : ascii -> bool) (s : str) : option nat :=
  match s with [] => None | c :: r => if p c then Some O else option_map S (index_func p r) end.
Definition parse (ty : N) (message : str) : option amsg :=
  let m := trim_space message in
  match parse_audit_header m with
  | HErr => None
  | HOk h =>
      (* time.Unix(sec, msec * 1e6): int64 arithmetic, nanoseconds normalised into [0, 1e9) *)
      let nsec0 := s64 (h_msec h * 1000000)%Z in
      let sec1 := s64 (h_sec h + nsec0 / 1000000000)%Z in
      let nsec1 := (nsec0 mod 1000000000)%Z in
      Some {| a_type := ty; a_sec := sec1; a_nsec := nsec1; a_seq := h_seq h; a_raw := m;
              a_off := index_func (fun c => (code c =? 58) || (code c =? 32)) (L ")" ++ h_after h) |}
  end.
Definition bytes_of (s : str) : Dec.str := s.
Definition parse_log_line (line : str) : option amsg :=
  match sindex (L "msg=") line with
  | None => None
  | Some i =>
      if (i <? 6)%nat then None
      else match MsgType.get_type (bytes_of (sub line 5 (i - 1))) with
           | None => None
           | Some ty => parse ty (skipn (i + 4) line)
           end
  end.
