(* Model/AuditClient.v — audit.go's AuditClient against a scripted kernel.
   The kernel is what the exported Netlink field sees: a script of receive
   results (consumed in order by every Receive the client makes) and a script of
   send faults.  State: the pending-ACK list, the clear-PID flag, the once flag
   of Close and the transport's sequence counter.  Every operation returns its
   result, the requests it put on the wire and whether it closed the socket. *)
From Coq Require Import List Ascii NArith ZArith Bool Lia.
Import ListNotations.
Require Import Mach AuditConsts MsgTypes.
Open Scope N_scope.

(* ---- what Netlink.Receive may return ---- *)
Inductive revent :=
| RErr (errno : Z)                      (* (nil, syscall.Errno) *)
| RMsg (ty seq : N) (data : str)        (* one message: header type, header sequence, payload *)
| RNone.                                (* (nil, nil) *)

(* canonical error classes (the harness maps Go errors to these) *)
Inductive cerr :=
| EErrno (n : Z)          (* a syscall.Errno obtained from an ACK payload *)
| ERuleExists
| ERecv (n : Z)           (* "error receiving audit reply" wrapping errno n *)
| ESend (n : Z)           (* "failed sending ..." wrapping errno n *)
| ENoReply | ESeq | EAckType | EShort | EReplyType | EEOF.

Inductive cres :=
| ROk
| RStatus (ws : list N)                 (* the 11 fields of AuditStatus in declaration order *)
| RRules (rs : list str)
| RCount (n : N)
| RRaw (ty : N) (data : str)
| RFail (e : cerr)
| RPanicked.                            (* the call panicked (never produced by the model) *)

Definition EINTR : Z := 4. Definition EAGAIN : Z := 11. Definition EEXIST : Z := 17.

(* ---- getReply ---- *)
Fixpoint recv_retry (tries : nat) (script : list revent) : (option cerr * option (N * N * str)) * list revent :=
  match tries with
  | O => ((None, None), script)
  | S k => match script with
           | [] => ((None, None), [])
           | RErr e :: r => if (Z.eqb e EINTR) || (Z.eqb e EAGAIN) then recv_retry k r else ((Some (ERecv e), None), r)
           | RMsg ty sq d :: r => ((None, Some (ty, sq, d)), r)
           | RNone :: r => ((None, None), r)
           end
  end.

Fixpoint get_reply (fuel : nat) (seq : N) (script : list revent) : (cerr + (N * N * str)) * list revent :=
  match fuel with
  | O => (inl ENoReply, script)
  | S f => match recv_retry 10 script with
           | ((Some e, _), r) => (inl e, r)
           | ((None, None), r) => (inl ENoReply, r)
           | ((None, Some (ty, sq, d)), r) =>
               if (sq =? 0) && negb (seq =? 0) then get_reply f seq r
               else if sq =? seq then (inr (ty, sq, d), r) else (inl ESeq, r)
           end
  end.
Definition reply (seq : N) (script : list revent) := get_reply (S (length script)) seq script.

(* ParseNetlinkError: errno = - int32 (first four bytes, little endian) *)
Definition s32 (w : N) : Z := if w <? 2^31 then Z.of_N w else Z.of_N w - 2^32.
Definition parse_netlink_error (d : str) : option cerr :=
  match rd32 d with
  | None => Some EShort
  | Some (w, _) => if w =? 0 then None else Some (EErrno (- s32 w))
  end.

Definition check_ack (r : cerr + (N * N * str)) : option cerr :=
  match r with
  | inl e => Some e
  | inr (ty, _, d) => if ty =? NLMSG_ERROR then parse_netlink_error d else Some EAckType
  end.

(* ---- AuditStatus on the wire ---- *)
Definition zero : ascii := ascii_of_N 0.
Definition pad_to (n : nat) (s : str) : str := firstn n (s ++ repeat zero n).
Definition status_from_wire (buf : str) : option (list N) :=
  if (length buf <? N.to_nat min_sizeof_audit_status)%nat then None
  else match bytes_to_words 11 (pad_to (N.to_nat sizeof_audit_status) buf) with Some (ws, _) => Some ws | None => None end.
(* field positions (word index) come from the generated offsets *)
Definition widx (off : N) : nat := N.to_nat (off / 4).
Fixpoint set_nth (n : nat) (v : N) (l : list N) : list N :=
  match n, l with O, _ :: r => v :: r | S k, x :: r => x :: set_nth k v r | _, [] => [] end.
Definition status_words (mask : N) (field_off : N) (v : N) : list N :=
  set_nth (widx field_off) v (set_nth (widx off_st_mask) mask (repeat 0 (N.to_nat (sizeof_audit_status / 4)))).
Definition status_bytes (mask field_off v : N) : str := words_to_bytes (status_words mask field_off v).

(* ---- the client ---- *)
Record cstate := { pending : list N; clear_pid : bool; closed : bool; nseq : N }.
Definition cinit : cstate := {| pending := []; clear_pid := false; closed := false; nseq := 0 |}.
Record world := { rscript : list revent; sfaults : list (option Z) }.   (* Some errno = this Send fails *)
Definition wire := (N * N * str)%type.                                   (* type, flags, payload *)

Definition REQ_ACK : N := N.lor NLM_F_REQUEST NLM_F_ACK.

(* Netlink.Send: the transport numbers requests consecutively; a fault still consumes a number *)
Definition do_send (s : cstate) (w : world) : cstate * world * N * option Z :=
  let sq := (nseq s + 1) mod 2^32 in
  let s' := {| pending := pending s; clear_pid := clear_pid s; closed := closed s; nseq := sq |} in
  match sfaults w with
  | [] => (s', w, sq, None)
  | f :: r => (s', {| rscript := rscript w; sfaults := r |}, sq, f)
  end.
Definition with_script (w : world) (r : list revent) : world := {| rscript := r; sfaults := sfaults w |}.

Inductive setter := SRateLimit | SBacklogLimit | SEnabled | SImmutable | SFailure | SBacklogWaitTime | SPID.
Definition setter_mask (k : setter) : N :=
  match k with
  | SRateLimit => AuditStatusRateLimit | SBacklogLimit => AuditStatusBacklogLimit
  | SEnabled | SImmutable => AuditStatusEnabled | SFailure => AuditStatusFailure
  | SBacklogWaitTime => AuditStatusBacklogWaitTime | SPID => AuditStatusPID
  end.
Definition setter_off (k : setter) : N :=
  match k with
  | SRateLimit => off_st_rate_limit | SBacklogLimit => off_st_backlog_limit
  | SEnabled | SImmutable => off_st_enabled | SFailure => off_st_failure
  | SBacklogWaitTime => off_st_backlog_wait_time | SPID => off_st_pid
  end.
(* the value that lands in the field: SetEnabled takes a bool, SetImmutable writes 2,
   SetBacklogWaitTime's int32 argument arrives as its two's-complement word *)
Definition setter_value (k : setter) (v : N) : N :=
  match k with SEnabled => if v =? 0 then 0 else 1 | SImmutable => 2 | _ => v mod 2^32 end.

Inductive cop :=
| OGetStatus | OGetRules | OAddRule (r : str) | ODeleteRule (r : str) | ODeleteRules
| OSet (k : setter) (v : N) (wait : bool)
| OWaitAcks | OClose | OReceive.

Definition outcome := (cres * list wire * bool)%type.     (* result, requests sent, socket closed by this call *)

Definition cset (s : cstate) (w : world) (k : setter) (v : N) (wait : bool) : cstate * world * cres * list wire :=
  let msg := (AuditSet, REQ_ACK, status_bytes (setter_mask k) (setter_off k) (setter_value k v)) in
  let s0 := match k with SPID => {| pending := pending s; clear_pid := true; closed := closed s; nseq := nseq s |} | _ => s end in
  let '(s1, w1, sq, f) := do_send s0 w in
  match f with
  | Some e => (s1, w1, RFail (ESend e), [msg])
  | None =>
      if wait then
        let '(r, rest) := reply sq (rscript w1) in
        (s1, with_script w1 rest, match check_ack r with None => ROk | Some e => RFail e end, [msg])
      else ({| pending := pending s1 ++ [sq]; clear_pid := clear_pid s1; closed := closed s1; nseq := nseq s1 |}, w1, ROk, [msg])
  end.

(* a request whose only answer is an ACK (AddRule, DeleteRule) *)
Definition ack_cmd (s : cstate) (w : world) (ty : N) (data : str) : cstate * world * option cerr * list wire :=
  let msg := (ty, REQ_ACK, data) in
  let '(s1, w1, sq, f) := do_send s w in
  match f with
  | Some e => (s1, w1, Some (ESend e), [msg])
  | None => let '(r, rest) := reply sq (rscript w1) in (s1, with_script w1 rest, check_ack r, [msg])
  end.

Fixpoint collect_rules (fuel : nat) (sq : N) (script : list revent) (acc : list str) : (cerr + list str) * list revent :=
  match fuel with
  | O => (inl ENoReply, script)
  | S f => match reply sq script with
           | (inl e, rest) => (inl e, rest)
           | (inr (ty, _, d), rest) =>
               if ty =? NLMSG_DONE then (inr (rev acc), rest)
               else if ty =? AUDIT_LIST_RULES then collect_rules f sq rest (d :: acc)
               else (inl EReplyType, rest)
           end
  end.

Definition get_rules (s : cstate) (w : world) : cstate * world * (cerr + list str) * list wire :=
  let msg := (AUDIT_LIST_RULES, REQ_ACK, []) in
  let '(s1, w1, sq, f) := do_send s w in
  match f with
  | Some e => (s1, w1, inl (ESend e), [msg])
  | None =>
      let '(r, rest) := reply sq (rscript w1) in
      match check_ack r with
      | Some e => (s1, with_script w1 rest, inl e, [msg])
      | None => let '(rr, rest') := collect_rules (S (length rest)) sq rest [] in (s1, with_script w1 rest', rr, [msg])
      end
  end.

Fixpoint delete_all (s : cstate) (w : world) (rules : list str) (sent : list wire) : cstate * world * option cerr * list wire :=
  match rules with
  | [] => (s, w, None, sent)
  | r :: rs => let '(s1, w1, e, ws) := ack_cmd s w AUDIT_DEL_RULE r in
               match e with Some x => (s1, w1, Some x, sent ++ ws) | None => delete_all s1 w1 rs (sent ++ ws) end
  end.

Fixpoint wait_acks (s : cstate) (script : list revent) (todo : list N) : cstate * list revent * option cerr :=
  match todo with
  | [] => ({| pending := []; clear_pid := clear_pid s; closed := closed s; nseq := nseq s |}, script, None)
  | q :: rest =>
      match reply q script with
      | (inl e, r) => ({| pending := todo; clear_pid := clear_pid s; closed := closed s; nseq := nseq s |}, r, Some e)
      | (inr (ty, sq, d), r) =>
          (* the ACK has been consumed: the request leaves the list whatever it says *)
          match check_ack (inr (ty, sq, d)) with
          | Some e => ({| pending := rest; clear_pid := clear_pid s; closed := closed s; nseq := nseq s |}, r, Some e)
          | None => wait_acks s r rest
          end
      end
  end.

Definition get_status (s : cstate) (w : world) : cstate * world * cres * list wire :=
  let msg := (AuditGet, REQ_ACK, []) in
  let '(s1, w1, sq, f) := do_send s w in
  match f with
  | Some e => (s1, w1, RFail (ESend e), [msg])
  | None =>
      let '(r, rest) := reply sq (rscript w1) in
      match check_ack r with
      | Some e => (s1, with_script w1 rest, RFail e, [msg])
      | None =>
          let '(r2, rest') := reply sq rest in
          (s1, with_script w1 rest',
           match r2 with
           | inl e => RFail e
           | inr (ty, _, d) => if ty =? AuditGet then match status_from_wire d with Some ws => RStatus ws | None => RFail EEOF end
                               else RFail EReplyType
           end, [msg])
      end
  end.

Definition cstep (s : cstate) (w : world) (o : cop) : cstate * world * outcome :=
  match o with
  | OGetStatus => let '(s1, w1, r, ws) := get_status s w in (s1, w1, (r, ws, false))
  | OGetRules =>
      let '(s1, w1, r, ws) := get_rules s w in
      (s1, w1, (match r with inl e => RFail e | inr rs => RRules rs end, ws, false))
  | OAddRule d =>
      let '(s1, w1, e, ws) := ack_cmd s w AUDIT_ADD_RULE d in
      (s1, w1, (match e with None => ROk | Some (EErrno n) => if Z.eqb n EEXIST then RFail ERuleExists else RFail (EErrno n) | Some x => RFail x end, ws, false))
  | ODeleteRule d =>
      let '(s1, w1, e, ws) := ack_cmd s w AUDIT_DEL_RULE d in
      (s1, w1, (match e with None => ROk | Some x => RFail x end, ws, false))
  | ODeleteRules =>
      let '(s1, w1, r, ws) := get_rules s w in
      match r with
      | inl e => (s1, w1, (RFail e, ws, false))
      | inr rs => let '(s2, w2, e, ws2) := delete_all s1 w1 rs ws in
                  (s2, w2, (match e with None => RCount (N.of_nat (length rs)) | Some x => RFail x end, ws2, false))
      end
  | OSet k v wait => let '(s1, w1, r, ws) := cset s w k v wait in (s1, w1, (r, ws, false))
  | OWaitAcks =>
      let '(s1, rest, e) := wait_acks s (rscript w) (pending s) in
      (s1, with_script w rest, (match e with None => ROk | Some x => RFail x end, [], false))
  | OClose =>
      if closed s then (s, w, (ROk, [], false))
      else
        let s0 := {| pending := pending s; clear_pid := clear_pid s; closed := true; nseq := nseq s |} in
        if clear_pid s then
          let msg := (AuditSet, REQ_ACK, status_bytes AuditStatusPID off_st_pid 0) in
          let '(s1, w1, sq, f) := do_send s0 w in
          match f with
          | Some e => (s1, w1, (RFail (ESend e), [msg], true))
          | None => ({| pending := pending s1 ++ [sq]; clear_pid := clear_pid s1; closed := true; nseq := nseq s1 |}, w1, (ROk, [msg], true))
          end
        else (s0, w, (ROk, [], true))
  | OReceive =>
      match rscript w with
      | [] => (s, w, (RFail ENoReply, [], false))
      | RErr e :: r => (s, with_script w r, (RFail (ERecv e), [], false))
      | RNone :: r => (s, with_script w r, (RFail ENoReply, [], false))
      | RMsg ty _ d :: r => (s, with_script w r, (RRaw ty d, [], false))
      end
  end.

(* what one call shows at the Netlink interface: its outcome and how many receive
   results it consumed *)
Definition outcome4 := (cres * list wire * bool * N)%type.
Fixpoint crun (s : cstate) (w : world) (ops : list cop) : list outcome4 :=
  match ops with
  | [] => []
  | o :: r => let '(s', w', (res, ws, cl)) := cstep s w o in
              (res, ws, cl, N.of_nat (length (rscript w) - length (rscript w'))) :: crun s' w' r
  end.
