(* Model/Client.v (prototype) — getReply and the ACK-checking commands against a scripted kernel. *)
From Coq Require Import List ZArith Bool Lia.
Import ListNotations.
Open Scope Z_scope.

Definition NLMSG_ERROR := 2. Definition EINTR := 4. Definition EAGAIN := 11. Definition EEXIST := 17.

Inductive recv_event :=
  | RErr (errno : Z)                                  (* Receive returned a syscall error *)
  | RMsg (ty : Z) (seq : Z) (errno_word : option Z)   (* a datagram: type, sequence, first payload word if >= 4 bytes *)
  | RNone.                                            (* Receive returned no message and no error *)

Inductive err :=
  | EErrno (n : Z)            (* wraps syscall.Errno n *)
  | ERuleExists
  | ERecv (n : Z)             (* "error receiving audit reply" wrapping n *)
  | ENoReply | ESeq (want got : Z) | EAckType (ty : Z) | EShort.

(* one iteration of the outer loop: up to [tries] receives, retrying on EINTR/EAGAIN *)
Fixpoint recv_retry (tries : nat) (script : list recv_event) : (option err * option (Z*Z*option Z)) * list recv_event :=
  match tries with
  | O => ((None, None), script)                       (* all 10 failed transiently: msgs is nil *)
  | S k => match script with
           | [] => ((None, None), [])                 (* kernel silent: modelled as EAGAIN forever, cut off *)
           | RErr e :: r => if (e =? EINTR) || (e =? EAGAIN) then recv_retry k r else ((Some (ERecv e), None), r)
           | RMsg ty sq w :: r => ((None, Some (ty, sq, w)), r)
           | RNone :: r => ((None, None), r)
           end
  end.

(* getReply: skip sequence-0 records (when seq <> 0), then demand the right sequence *)
Fixpoint get_reply (fuel : nat) (seq : Z) (script : list recv_event) : (err + (Z*Z*option Z)) * list recv_event :=
  match fuel with
  | O => (inl ENoReply, script)
  | S f => match recv_retry 10 script with
           | ((Some e, _), r) => (inl e, r)
           | ((None, None), r) => (inl ENoReply, r)
           | ((None, Some (ty, sq, w)), r) =>
               if (sq =? 0) && negb (seq =? 0) then get_reply f seq r
               else if sq =? seq then (inr (ty, sq, w), r) else (inl (ESeq seq sq), r)
           end
  end.

Definition parse_netlink_error (w : option Z) : option err :=
  match w with None => Some EShort | Some x => if x =? 0 then None else Some (EErrno (- x)) end.

(* set() in WaitForReply mode, AddRule, and the repaired DeleteRule share this shape *)
Definition await_ack (seq : Z) (script : list recv_event) : option err * list recv_event :=
  match get_reply (S (length script)) seq script with
  | (inl e, r) => (Some e, r)
  | (inr (ty, _, w), r) => if ty =? NLMSG_ERROR then (parse_netlink_error w, r) else (Some (EAckType ty), r)
  end.
Definition add_rule (seq : Z) script :=
  match await_ack seq script with
  | (Some (EErrno n), r) => if n =? EEXIST then (Some ERuleExists, r) else (Some (EErrno n), r)
  | x => x
  end.

(* ---- the property's fault model ---- *)
Definition transient (e : recv_event) := match e with RErr n => (n =? EINTR) || (n =? EAGAIN) | _ => false end.
Definition unsolicited (e : recv_event) := match e with RMsg _ 0 _ => true | _ => false end.
(* noise: blocks of at most 9 transient failures, each followed by an unsolicited record *)
Inductive noise : list recv_event -> Prop :=
  | noise_nil : noise []
  | noise_block ts u rest : (length ts <= 9)%nat -> forallb transient ts = true -> unsolicited u = true -> noise rest ->
      noise (ts ++ u :: rest).
(* the kernel answers request [seq] with [errno] after any noise and at most 9 transient failures *)
Definition answers (seq errno : Z) (script : list recv_event) : Prop :=
  exists ns ts rest, noise ns /\ (length ts <= 9)%nat /\ forallb transient ts = true /\
    script = ns ++ ts ++ RMsg NLMSG_ERROR seq (Some (- errno)) :: rest.

Lemma recv_retry_transient : forall ts k e r, forallb transient ts = true -> (length ts < k)%nat -> transient e = false ->
  recv_retry k (ts ++ e :: r) = recv_retry (k - length ts) (e :: r).
Proof.
  induction ts as [|t ts IH]; intros k e r Ht Hl He; cbn [length app].
  - rewrite Nat.sub_0_r. auto.
  - destruct k as [|k]; [cbn in Hl; lia|]. cbn in Ht. apply andb_prop in Ht. destruct Ht as [Ht1 Ht2].
    cbn [recv_retry]. destruct t; cbn in Ht1; try discriminate. rewrite Ht1. rewrite IH; auto. cbn in Hl. lia.
Qed.

(* after any admissible noise and at most 9 transient failures the ACK is found *)
Lemma get_reply_answers : forall ns, noise ns -> forall seq errno ts rest fuel, seq <> 0 ->
  (length ts <= 9)%nat -> forallb transient ts = true -> (length ns < fuel)%nat ->
  get_reply fuel seq (ns ++ ts ++ RMsg NLMSG_ERROR seq (Some (- errno)) :: rest) = (inr (NLMSG_ERROR, seq, Some (- errno)), rest).
Proof.
  induction 1 as [|ts0 u rest0 Hl0 Ht0 Hu Hn IH]; intros seq errno ts rest fuel Hs Hl Ht Hf.
  - cbn [app]. destruct fuel as [|f]; [cbn in Hf; lia|]. cbn [get_reply].
    rewrite recv_retry_transient; auto; try lia. destruct (10 - length ts)%nat eqn:E; [lia|]. cbn [recv_retry].
    replace ((seq =? 0) && negb (seq =? 0)) with false by (destruct (seq =? 0); auto). rewrite Z.eqb_refl. auto.
  - destruct fuel as [|f]; [cbn in Hf; lia|]. cbn [get_reply]. rewrite <- !app_assoc. cbn [app].
    destruct u as [e|ty sq w|]; cbn in Hu; try discriminate. destruct sq; try discriminate.
    rewrite recv_retry_transient; auto; try lia. destruct (10 - length ts0)%nat eqn:E; [lia|]. cbn [recv_retry].
    replace ((0 =? 0) && negb (seq =? 0)) with true by (cbn; destruct (seq =? 0) eqn:E0; auto; apply Z.eqb_eq in E0; lia).
    apply IH; auto. rewrite app_length in Hf. cbn in Hf. lia.
Qed.

(* C08 for the ACK-only commands: nil exactly when errno = 0, otherwise the errno is identified *)
Theorem await_ack_verdict seq errno script : seq <> 0 -> answers seq errno script ->
  fst (await_ack seq script) = (if errno =? 0 then None else Some (EErrno errno)).
Proof.
  intros Hs (ns & ts & rest & Hn & Hl & Ht & ->). unfold await_ack.
  rewrite (get_reply_answers ns Hn seq errno ts rest); auto.
  - cbn. unfold parse_netlink_error. destruct (errno =? 0) eqn:E.
    + apply Z.eqb_eq in E. subst. cbn. auto.
    + replace (- errno =? 0) with false by (symmetry; apply Z.eqb_neq; apply Z.eqb_neq in E; lia). f_equal. f_equal. lia.
  - rewrite !app_length. cbn. lia.
Qed.
Theorem add_rule_verdict seq errno script : seq <> 0 -> answers seq errno script ->
  fst (add_rule seq script) = (if errno =? 0 then None else if errno =? EEXIST then Some ERuleExists else Some (EErrno errno)).
Proof.
  intros Hs Ha. unfold add_rule. pose proof (await_ack_verdict seq errno script Hs Ha) as H.
  destruct (await_ack seq script) as [o r]. cbn in H. subst o. destruct (errno =? 0); auto. destruct (errno =? EEXIST); auto.
Qed.
(* a reply carrying a foreign sequence is never success *)
Theorem foreign_seq_rejected seq q ty w ns ts rest : seq <> 0 -> q <> 0 -> q <> seq -> noise ns -> (length ts <= 9)%nat -> forallb transient ts = true ->
  exists e, fst (await_ack seq (ns ++ ts ++ RMsg ty q w :: rest)) = Some e.
Proof.
  intros Hs Hq Hne Hn. revert ts rest. unfold await_ack.
  assert (G: forall fuel ts rest, (length ts <= 9)%nat -> forallb transient ts = true -> (length ns < fuel)%nat ->
     fst (get_reply fuel seq (ns ++ ts ++ RMsg ty q w :: rest)) = inl (ESeq seq q)).
  { induction Hn as [|ts0 u rest0 Hl0 Ht0 Hu Hn IH]; intros fuel ts rest Hl Ht Hf.
    - cbn [app]. destruct fuel as [|f]; [cbn in Hf; lia|]. cbn [get_reply].
      rewrite recv_retry_transient; auto; try lia. destruct (10 - length ts)%nat eqn:E; [lia|]. cbn [recv_retry].
      replace ((q =? 0) && negb (seq =? 0)) with false by (symmetry; apply andb_false_iff; left; apply Z.eqb_neq; auto).
      replace (q =? seq) with false by (symmetry; apply Z.eqb_neq; auto). auto.
    - destruct fuel as [|f]; [cbn in Hf; lia|]. cbn [get_reply]. rewrite <- !app_assoc. cbn [app].
      destruct u as [e|ty' sq w'|]; cbn in Hu; try discriminate. destruct sq; try discriminate.
      rewrite recv_retry_transient; auto; try lia. destruct (10 - length ts0)%nat eqn:E; [lia|]. cbn [recv_retry].
      replace ((0 =? 0) && negb (seq =? 0)) with true by (cbn; destruct (seq =? 0) eqn:E0; auto; apply Z.eqb_eq in E0; lia).
      apply IH; auto. rewrite app_length in Hf. cbn in Hf. lia. }
  intros ts rest Hl Ht. specialize (G (S (length (ns ++ ts ++ RMsg ty q w :: rest))) ts rest Hl Ht).
  destruct (get_reply _ seq _) as [[e|x] r]; cbn in *.
  - exists e. auto.
  - exfalso. assert (H: (length ns < S (length (ns ++ ts ++ RMsg ty q w :: rest)))%nat) by (rewrite app_length; lia). specialize (G H). discriminate.
Qed.
Print Assumptions await_ack_verdict.
Print Assumptions foreign_seq_rejected.
