(* Model/IdCache.v — the id <-> name caches of aucoalesce/id_lookup.go (stringCache, EntityCache).
   A cache maps a key to a value with an expiry; lookup returns an unexpired entry, otherwise asks the
   resolver, stores the answer (empty answers too) and returns it; hardcode pins an entry for ever.
   Time is a tick counter that only a pause longer than the expiration advances (the harness sleeps):
   with expiration class AfterPause an entry is fresh exactly when it was stored in the current tick;
   Never = an expiration far beyond the run; Always = a negative expiration (every entry is stale at once). *)
From Coq Require Import List Ascii String NArith Bool Arith.
Import ListNotations.
Require Import KV Parser.
Require Dec.
Local Open Scope list_scope.

Inductive eclass := Never | Always | AfterPause.
Record entry := { e_key : str; e_val : str; e_tick : nat; e_pinned : bool }.
Definition cache := list entry.
Definition fresh (cl : eclass) (now : nat) (e : entry) : bool :=
  e_pinned e || match cl with Never => true | Always => false | AfterPause => Nat.eqb (e_tick e) now end.
Definition store (k v : str) (t : nat) (pin : bool) (c : cache) : cache :=
  {| e_key := k; e_val := v; e_tick := t; e_pinned := pin |} :: filter (fun e => negb (beq (e_key e) k)) c.
Definition cfind (k : str) (c : cache) : option entry := find (fun e => beq (e_key e) k) c.

(* lookup: the new cache, the value, and whether the resolver was asked *)
Definition lookup (cl : eclass) (R : nat -> str -> str) (now : nat) (c : cache) (k : str) : cache * str * bool :=
  if isS k "" || isS k "unset" then (c, [], false)
  else match cfind k c with
       | Some e => if fresh cl now e then (c, e_val e, false) else let v := R now k in (store k v now false c, v, true)
       | None => let v := R now k in (store k v now false c, v, true)
       end.
Definition hardcode (k v : str) (now : nat) (c : cache) : cache := store k v now true c.

(* an EntityCache: ids -> names and names -> ids; the constructors pin root *)
Record ecache := { by_id : cache; by_name : cache }.
Definition new_ecache : ecache :=
  {| by_id := [{| e_key := L "0"; e_val := L "root"; e_tick := 0; e_pinned := true |}];
     by_name := [{| e_key := L "root"; e_val := L "0"; e_tick := 0; e_pinned := true |}] |}.

(* the run: a user cache and a group cache, operations, one observation per lookup *)
Inductive cop := CLookup (which kind : nat) (k : str) | CHard (which : nat) (id name : str) | CPause.
Record cstate2 := { users : ecache; groups : ecache; tick : nat }.
Definition cs0 : cstate2 := {| users := new_ecache; groups := new_ecache; tick := 0 |}.
Definition get_ec (s : cstate2) (w : nat) : ecache := match w with O => users s | _ => groups s end.
Definition set_ec (s : cstate2) (w : nat) (e : ecache) : cstate2 :=
  match w with O => {| users := e; groups := groups s; tick := tick s |} | _ => {| users := users s; groups := e; tick := tick s |} end.
Definition cstep2 (cl : eclass) (R : nat -> nat -> nat -> str -> str) (s : cstate2) (o : cop) : cstate2 * option (str * bool) :=
  match o with
  | CPause => ({| users := users s; groups := groups s; tick := S (tick s) |}, None)
  | CHard w id name =>
      let e := get_ec s w in
      (set_ec s w {| by_id := hardcode id name (tick s) (by_id e); by_name := hardcode name id (tick s) (by_name e) |}, None)
  | CLookup w kind k =>
      let e := get_ec s w in
      match kind with
      | O => let '(c', v, asked) := lookup cl (fun t => R w 0 t) (tick s) (by_id e) k in
             (set_ec s w {| by_id := c'; by_name := by_name e |}, Some (v, asked))
      | _ => let '(c', v, asked) := lookup cl (fun t => R w 1 t) (tick s) (by_name e) k in
             (set_ec s w {| by_id := by_id e; by_name := c' |}, Some (v, asked))
      end
  end.
Fixpoint crun (cl : eclass) (R : nat -> nat -> nat -> str -> str) (s : cstate2) (ops : list cop) : list (option (str * bool)) :=
  match ops with [] => [] | o :: r => let '(s', out) := cstep2 cl R s o in out :: crun cl R s' r end.
