(* Model/RuleBuild.v — rule.Build on what flags.Parse returns: the text of every filter value goes
   through the value parsers (Model/RuleValue.v), syscall names are resolved against the arch
   filter in force, and the structured rule is handed to Model/RuleEncode.v.
   [rebuild] is the whole way back from a printed line: blank-splitting, flags.Parse, Build. *)
From Coq Require Import List Ascii String Arith NArith ZArith Bool Lia.
Import ListNotations.
Require Import Bytes Dec Strconv Mach RuleTables Arch Syscalls RuleDecode Mask RuleEncode RuleText RuleValue FilterRe Flags.
Local Open Scope string_scope.
Local Open Scope list_scope.
Open Scope N_scope.

Definition sos (s : str) : string := string_of_list_ascii s.

(* one filter of the parsed line as a structured item; None = addFilter would fail on the value (or asks the user database) *)
Definition item_of_filter (flt : bool * str * str * str) : option item :=
  let '(cmp, lhs, o, rhs) := flt in
  if cmp then Some (ICompare (sos lhs) (sos o) (sos rhs))
  else match lookupS lhs fields_table with
       | None => None
       | Some fc =>
           if is_string_field fc then Some (IFilter (sos lhs) (sos o) (VStr rhs))
           else match parse_value fc rhs with VOk n => Some (IFilter (sos lhs) (sos o) (VNum n)) | _ => None end
       end.
Fixpoint items_of_filters (fs : list (bool * str * str * str)) : option (list item) :=
  match fs with
  | [] => Some []
  | f :: r => match item_of_filter f, items_of_filters r with Some i, Some is' => Some (i :: is') | _, _ => None end
  end.

(* rule.arch after the filters: the name getArch gave for the last arch filter *)
Fixpoint arch_in_force (fs : list (bool * str * str * str)) (cur : str) : str :=
  match fs with
  | [] => cur
  | (cmp, lhs, _, rhs) :: r =>
      if negb cmp && str_eqb_s lhs "arch" then arch_in_force r (match get_arch rhs with Some (nm, _) => nm | None => cur end)
      else arch_in_force r cur
  end.

(* addSyscall over the -S values, in order *)
Fixpoint syscalls_of_texts (arch : str) (ts : list str) (all explicit : bool) (acc : list N) : option (bool * list N) :=
  match ts with
  | [] => Some (all, acc)
  | t :: r =>
      if str_eqb_s t "all" then syscalls_of_texts arch r true true acc
      else match syscall_number arch t with
           | Some n => syscalls_of_texts arch r (if explicit then all else false) explicit (acc ++ [n])
           | None => None
           end
  end.

(* addSyscall: the rule's arch, or the runtime's when no arch filter was given *)
Definition arch_choice (a0 : str) : option str := match a0 with [] => option_map s2l runtime_arch | _ => Some a0 end.

Definition spec_of_prule (lst act : str) (filters : list (bool * str * str * str)) (syscalls keys : list str) : option rspec :=
  match items_of_filters filters with
  | None => None
  | Some items =>
      match arch_choice (arch_in_force filters []) with
      | None => None
      | Some arch =>
          match syscalls_of_texts arch syscalls true false [] with
          | None => None
          | Some (all, nums) =>
              Some {| sp_list := sos lst; sp_action := sos act; sp_items := items; sp_all := all; sp_syscalls := nums; sp_keys := keys |}
          end
      end
  end.

(* stat: is the (cleaned) path an existing directory *)
Definition build_prule (stat : str -> bool) (p : prule) : option wiredata :=
  match p with
  | PSyscall _ lst act filters syscalls keys =>
      match spec_of_prule lst act filters syscalls keys with Some s => data_of_spec s | None => None end
  | PWatch path perms keys =>
      match path with
      | [] => None                                                  (* Clean("") = "." is not absolute *)
      | _ => if is_abs path then let p' := clean_rooted path in data_of_watch p' (stat p') perms keys else None
      end
  | PDelete _ => None
  end.

(* shellquote.Split on a line without quotes or backslashes: fields separated by blanks *)
Definition is_sh_blank (c : ascii) : bool := let n := N_of_ascii c in (n =? 32) || (n =? 9) || (n =? 10).
Fixpoint split_ws_aux (s : str) (cur : str) : list str :=
  match s with
  | [] => match cur with [] => [] | _ => [rev cur] end
  | c :: r => if is_sh_blank c then (match cur with [] => [] | _ => [rev cur] end) ++ split_ws_aux r [] else split_ws_aux r (c :: cur)
  end.
Definition split_ws (s : str) : list str := split_ws_aux s [].

Definition rebuild (stat : str -> bool) (text : str) : option wiredata :=
  match flags_parse (split_ws text) with Some p => build_prule stat p | None => None end.
