(* Model/Netlink.v + Model/Status.v (prototype) — nlmsghdr framing and audit_status layout over Mach.v. *)
From Coq Require Import List Ascii NArith ZArith Bool Lia ZifyBool ZifyN ZifyNat.
Import ListNotations.
Require Import Mach.
Open Scope N_scope.
Local Arguments N.mul : simpl never.
Local Arguments N.add : simpl never.

(* ---- 16-bit little-endian ---- *)
Definition le16 (w : N) : str := [byte_of w; byte_of (w / 256)].
Definition rd16 (s : str) : option (N * str) :=
  match s with a :: b :: r => Some (N_of_ascii a + 256 * N_of_ascii b, r) | _ => None end.
Lemma rd16_le16 w r : w < 65536 -> rd16 (le16 w ++ r) = Some (w, r).
Proof.
  intros H. unfold le16. cbn [app rd16]. rewrite !N_of_byte_of. f_equal. f_equal.
  assert (H1: w / 256 < 256) by (apply N.div_lt_upper_bound; lia). rewrite (N.mod_small (w / 256)) by auto.
  pose proof (N.div_mod w 256 ltac:(lia)) as E. set (q := w / 256) in *. set (r0 := w mod 256) in *. clearbody q r0. lia.
Qed.

(* ---- struct nlmsghdr: len@0 (u32) type@4 (u16) flags@6 (u16) seq@8 (u32) pid@12 (u32) ---- *)
Record nlhdr := { nl_len : N; nl_type : N; nl_flags : N; nl_seq : N; nl_pid : N }.
Definition wf_hdr (h : nlhdr) := nl_len h < 2^32 /\ nl_type h < 65536 /\ nl_flags h < 65536 /\ nl_seq h < 2^32 /\ nl_pid h < 2^32.
Definition put_hdr (h : nlhdr) : str := le32 (nl_len h) ++ le16 (nl_type h) ++ le16 (nl_flags h) ++ le32 (nl_seq h) ++ le32 (nl_pid h).
Definition get_hdr (s : str) : option (nlhdr * str) :=
  match rd32 s with None => None | Some (l, s1) =>
  match rd16 s1 with None => None | Some (t, s2) =>
  match rd16 s2 with None => None | Some (f, s3) =>
  match rd32 s3 with None => None | Some (q, s4) =>
  match rd32 s4 with None => None | Some (p, s5) =>
    Some ({| nl_len := l; nl_type := t; nl_flags := f; nl_seq := q; nl_pid := p |}, s5) end end end end end.

(* NetlinkClient.Send: fill pid when 0, next sequence (uint32 wrap), serialize *)
Record client := { port : N; cseq : N }.
Definition send (c : client) (ty flags pid : N) (payload : str) : client * N * str :=
  let sq := (cseq c + 1) mod 2^32 in
  let h := {| nl_len := (16 + N.of_nat (length payload)) mod 2^32; nl_type := ty; nl_flags := flags; nl_seq := sq;
              nl_pid := if pid =? 0 then port c else pid |} in
  ({| port := port c; cseq := sq |}, sq, put_hdr h ++ payload).

Lemma length_le32 w : length (le32 w) = 4%nat. Proof. reflexivity. Qed.
Lemma length_le16 w : length (le16 w) = 2%nat. Proof. reflexivity. Qed.
Lemma length_put_hdr h : length (put_hdr h) = 16%nat.
Proof. unfold put_hdr. rewrite !app_length, !length_le32, !length_le16. reflexivity. Qed.

Theorem get_put_hdr h r : wf_hdr h -> get_hdr (put_hdr h ++ r) = Some (h, r).
Proof.
  intros (H1 & H2 & H3 & H4 & H5). unfold get_hdr, put_hdr. rewrite <- !app_assoc.
  rewrite rd32_le32 by auto. rewrite rd16_le16 by auto. rewrite rd16_le16 by auto. rewrite rd32_le32 by auto. rewrite rd32_le32 by auto.
  destruct h; reflexivity.
Qed.

(* C18: one message, header correct, payload verbatim, returned sequence is the one on the wire *)
Theorem send_frame c ty flags pid payload : ty < 65536 -> flags < 65536 -> pid < 2^32 -> port c < 2^32 ->
  N.of_nat (length payload) < 2^32 - 16 ->
  let '(c', sq, bytes) := send c ty flags pid payload in
  get_hdr bytes = Some ({| nl_len := 16 + N.of_nat (length payload); nl_type := ty; nl_flags := flags; nl_seq := sq;
                           nl_pid := if pid =? 0 then port c else pid |}, payload)
  /\ length bytes = (16 + length payload)%nat /\ cseq c' = sq.
Proof.
  intros Ht Hf Hp Hc Hl. unfold send. split; [|split; auto].
  - rewrite get_put_hdr.
    + f_equal. f_equal. f_equal. change (2^32) with 4294967296 in *. rewrite N.mod_small by lia. auto.
    + unfold wf_hdr. cbn [nl_len nl_type nl_flags nl_seq nl_pid]. change (2^32) with 4294967296 in *.
      repeat split; auto; try (apply N.mod_lt; lia). destruct (pid =? 0); auto.
Qed.

(* sequence numbers returned by consecutive sends are strictly increasing until the counter wraps *)
Fixpoint sends (c : client) (n : nat) : list N :=
  match n with O => [] | S k => let '(c', sq, _) := send c 0 0 0 [] in sq :: sends c' k end.
Theorem sends_increasing : forall n c, cseq c + N.of_nat n < 2^32 -> forall i j a b, (i < j)%nat ->
  nth_error (sends c n) i = Some a -> nth_error (sends c n) j = Some b -> a < b.
Proof.
  assert (G: forall n c, cseq c + N.of_nat n < 2^32 -> forall i a, nth_error (sends c n) i = Some a -> a = cseq c + 1 + N.of_nat i).
  { induction n as [|n IH]; intros c H i a Hi; cbn [sends] in Hi. destruct i; discriminate.
    unfold send in Hi. cbn [cseq port] in Hi. change (2^32) with 4294967296 in *.
    destruct i as [|i]; cbn [nth_error] in Hi.
    - inversion Hi. rewrite N.mod_small by lia. lia.
    - apply IH in Hi; cbn [cseq] in *; rewrite N.mod_small in * by lia; lia. }
  intros n c H i j a b Hij Ha Hb. apply G in Ha; auto. apply G in Hb; auto. lia.
Qed.

(* ---- struct audit_status: 11 words, mask@0 … backlog_wait_time_actual@40; decoding any buffer ---- *)
Definition status := list N.                      (* 11 fields in UAPI order *)
Definition status_to_wire (st : status) : str := words_to_bytes st.
Definition pad_to (n : nat) (s : str) : str := firstn n (s ++ repeat zero n).
Definition status_from_wire (buf : str) : option status :=
  if (length buf <? 32)%nat then None                          (* io.ErrUnexpectedEOF *)
  else match bytes_to_words 11 (pad_to 44 buf) with Some (ws, _) => Some ws | None => None end.

Lemma length_pad_to n s : length (pad_to n s) = n.
Proof. unfold pad_to. rewrite firstn_length, app_length, repeat_length. lia. Qed.

Theorem status_from_wire_total buf : (32 <= length buf)%nat -> status_from_wire buf <> None.
Proof.
  intros H. unfold status_from_wire. replace (length buf <? 32)%nat with false by lia.
  pose proof (bytes_to_words_total 11 (pad_to 44 buf)) as Ht. rewrite length_pad_to in Ht.
  destruct (bytes_to_words 11 (pad_to 44 buf)) as [[ws r]|]; [discriminate|]. exfalso. apply Ht; auto.
Qed.
Theorem status_roundtrip st trailing : length st = 11%nat -> Forall (fun w => w < 2^32) st ->
  status_from_wire (status_to_wire st ++ trailing) = Some st.
Proof.
  intros Hl Hf. unfold status_from_wire, status_to_wire. rewrite app_length, length_words_to_bytes, Hl.
  replace (4 * 11 + length trailing <? 32)%nat with false by lia.
  unfold pad_to. rewrite <- app_assoc. rewrite firstn_app, length_words_to_bytes, Hl.
  rewrite firstn_all2 by (rewrite length_words_to_bytes; lia). replace (44 - 4 * 11)%nat with 0%nat by lia. cbn [firstn].
  rewrite <- Hl at 1. rewrite bytes_to_words_roundtrip; auto.
Qed.
Print Assumptions send_frame.
Print Assumptions sends_increasing.
Print Assumptions status_roundtrip.
