(* Base/Bytes.v (prototype, TrimSpace part) — strings.TrimSpace on byte strings: Unicode White_Space runes,
   decoded as Go decodes them from the left (DecodeRuneInString) and from the right (DecodeLastRuneInString). *)
From Coq Require Import List Ascii Bool Arith Lia.
Import ListNotations.
Require Import KV.

Definition bytes (l : list nat) : str := map ascii_of_nat l.
(* UTF-8 encodings of every rune with unicode.IsSpace = true *)
Definition space_runes : list str := map bytes
  [ [9]; [10]; [11]; [12]; [13]; [32];
    [194;133]; [194;160];                          (* U+0085 U+00A0 *)
    [225;154;128];                                 (* U+1680 *)
    [226;128;128]; [226;128;129]; [226;128;130]; [226;128;131]; [226;128;132]; [226;128;133];
    [226;128;134]; [226;128;135]; [226;128;136]; [226;128;137]; [226;128;138];   (* U+2000..U+200A *)
    [226;128;168]; [226;128;169]; [226;128;175];   (* U+2028 U+2029 U+202F *)
    [226;129;159];                                 (* U+205F *)
    [227;128;128] ].                               (* U+3000 *)

Fixpoint strip_pre (p l : str) : option str :=
  match p, l with
  | [], _ => Some l
  | a :: p', b :: l' => if Nat.eqb (code a) (code b) then strip_pre p' l' else None
  | _, [] => None
  end.
Fixpoint first_some {A} (f : str -> option A) (ps : list str) : option A :=
  match ps with [] => None | p :: r => match f p with Some x => Some x | None => first_some f r end end.
Definition drop_space_rune (s : str) : option str := first_some (fun p => strip_pre p s) space_runes.

Fixpoint trim_left (fuel : nat) (s : str) : str :=
  match fuel with O => s | S f => match drop_space_rune s with Some r => trim_left f r | None => s end end.
(* trailing: a reversed string starts with the reversed encoding *)
Definition drop_space_rune_rev (s_rev : str) : option str := first_some (fun p => strip_pre (rev p) s_rev) space_runes.
Fixpoint trim_left_rev (fuel : nat) (s_rev : str) : str :=
  match fuel with O => s_rev | S f => match drop_space_rune_rev s_rev with Some r => trim_left_rev f r | None => s_rev end end.
Definition trim_space (s : str) : str :=
  let l := trim_left (length s) s in rev (trim_left_rev (length l) (rev l)).
