(* Model/KV.v (prototype) — a scanner equal to auparse.kvRegex (key run, '=', then an unquoted run or a
   single- or double-quoted value with backslash-quote pairs) under Go regexp (RE2, leftmost-first)
   semantics, as used by FindAllStringSubmatch(msg, -1).  The regex text itself is pinned in Gen/RegexPins.v. *)
From Coq Require Import List Ascii NArith Bool Arith Lia.
Import ListNotations.

Definition str := list ascii.
Definition code (c : ascii) : nat := nat_of_ascii c.
Definition is_key (c : ascii) : bool :=
  let n := code c in ((97 <=? n) && (n <=? 122)) || ((48 <=? n) && (n <=? 57)) || (n =? 95) || (n =? 45).
Definition is_space (c : ascii) : bool :=                      (* RE2 \s = [\t\n\f\r ] — no \v *)
  let n := code c in (n =? 9) || (n =? 10) || (n =? 12) || (n =? 13) || (n =? 32).
Definition is_plain (c : ascii) : bool := negb ((code c =? 34) || (code c =? 39) || is_space c).

Fixpoint span (p : ascii -> bool) (l : str) : str * str :=
  match l with
  | c :: r => if p c then let (a, b) := span p r in (c :: a, b) else ([], l)
  | [] => ([], [])
  end.

(* body of a quoted value after the opening quote q; returns the body INCLUDING the closing quote, and the rest.
   The value closes at the first unescaped quote (greedy: a backslash followed by q is an escaped pair);
   if the input ends first, backtracking makes the quote of the LAST escaped pair close the value (fallback). *)
Fixpoint quoted (q : nat) (s : str) (consumed_rev : str) (fallback : option (str * str)) : option (str * str) :=
  match s with
  | [] => fallback
  | c :: r =>
      if code c =? q then Some (rev (c :: consumed_rev), r)
      else if code c =? 92 then
        match r with
        | d :: r' => if code d =? q
                     then quoted q r' (d :: c :: consumed_rev) (Some (rev (d :: c :: consumed_rev), r'))
                     else quoted q r (c :: consumed_rev) fallback
        | [] => quoted q r (c :: consumed_rev) fallback
        end
      else quoted q r (c :: consumed_rev) fallback
  end.

Definition scan_value (s : str) : option (str * str) :=
  match s with
  | [] => None
  | c :: r =>
      if (code c =? 39) || (code c =? 34) then
        match quoted (code c) r [] None with Some (body, rest) => Some (c :: body, rest) | None => None end
      else let (v, rest) := span is_plain s in match v with [] => None | _ => Some (v, rest) end
  end.

(* a match starting exactly at the head of s *)
Definition match_here (s : str) : option (str * str * str) :=
  let (k, r1) := span is_key s in
  match k, r1 with
  | _ :: _, e :: r2 => if code e =? 61 then match scan_value r2 with Some (v, rest) => Some (k, v, rest) | None => None end else None
  | _, _ => None
  end.

Fixpoint find_all (fuel : nat) (s : str) : list (str * str) :=
  match fuel with
  | O => []
  | S f => match s with
           | [] => []
           | _ :: tl => match match_here s with
                        | Some (k, v, rest) => (k, v) :: find_all f rest
                        | None => find_all f tl
                        end
           end
  end.
Definition kv_find_all (s : str) : list (str * str) := find_all (S (length s)) s.
