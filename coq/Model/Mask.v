(* Model/RuleBuild.v (prototype, syscall mask) — toAuditRuleData's bit setting and fromAuditRuleData's bit listing. *)
From Coq Require Import List NArith ZArith Bool Lia ZifyBool ZifyN ZifyNat.
Import ListNotations.
Open Scope N_scope.
Local Arguments N.mul : simpl never.
Local Arguments N.add : simpl never.

Definition maskT := list N.                                   (* 64 words *)
Fixpoint upd (i : nat) (f : N -> N) (l : list N) : option (list N) :=
  match i, l with
  | O, x :: r => Some (f x :: r)
  | S k, x :: r => match upd k f r with Some r' => Some (x :: r') | None => None end
  | _, [] => None                                              (* index out of range: the Go code would panic *)
  end.
(* repaired guard: word >= len -> error (None here stands for the error; it is not a panic) *)
Definition set_syscall (m : maskT) (n : N) : option maskT :=
  let word := n / 32 in let bit := n mod 32 in
  if N.of_nat (length m) <=? word then None else upd (N.to_nat word) (fun w => N.lor w (2 ^ bit)) m.
Definition testbit_mask (m : maskT) (n : N) : bool := N.testbit (nth (N.to_nat (n / 32)) m 0) (n mod 32).

Lemma upd_length i f l l' : upd i f l = Some l' -> length l' = length l.
Proof. revert l l'. induction i as [|i IH]; intros [|x r] l' H; cbn in H; try discriminate. inversion H; auto.
  destruct (upd i f r) eqn:E; try discriminate. inversion H; subst. cbn. f_equal. eauto. Qed.
Lemma upd_some i f l : (i < length l)%nat -> exists l', upd i f l = Some l'.
Proof.
  revert l. induction i as [|i IH]; intros [|x r] H; cbn [length upd] in *; try lia.
  - eauto.
  - destruct (IH r) as [l' Hl]; [lia|]. rewrite Hl. eauto.
Qed.
Lemma upd_nth i f l l' j : upd i f l = Some l' -> nth j l' 0 = if Nat.eqb i j then f (nth j l 0) else nth j l 0.
Proof.
  revert l l' j. induction i as [|i IH]; intros [|x r] l' j H; cbn in H; try discriminate.
  - inversion H; subst. destruct j; auto.
  - destruct (upd i f r) eqn:E; try discriminate. inversion H; subst. destruct j; cbn [nth Nat.eqb]; auto.
Qed.

Theorem set_syscall_total m n : n < 32 * N.of_nat (length m) -> exists m', set_syscall m n = Some m' /\ length m' = length m.
Proof.
  intros H. unfold set_syscall. assert (Hw: n / 32 < N.of_nat (length m)) by (apply N.div_lt_upper_bound; lia).
  replace (N.of_nat (length m) <=? n / 32) with false by lia.
  destruct (upd_some (N.to_nat (n / 32)) (fun w => N.lor w (2 ^ (n mod 32))) m) as [m' Hm]; [lia|].
  exists m'. split; auto. eapply upd_length; eauto.
Qed.
Theorem set_syscall_rejects m n : 32 * N.of_nat (length m) <= n -> set_syscall m n = None.      (* 2048 is rejected, not a panic *)
Proof.
  intros H. unfold set_syscall. assert (N.of_nat (length m) <= n / 32) by (apply N.div_le_lower_bound; lia).
  replace (N.of_nat (length m) <=? n / 32) with true by lia. auto.
Qed.

Theorem testbit_set_syscall m n m' k : set_syscall m n = Some m' ->
  testbit_mask m' k = (n =? k) || testbit_mask m k.
Proof.
  unfold set_syscall. destruct (N.of_nat (length m) <=? n / 32) eqn:E; try discriminate. intros H.
  unfold testbit_mask. rewrite (upd_nth _ _ _ _ (N.to_nat (k / 32)) H).
  pose proof (N.div_mod n 32 ltac:(lia)) as En. pose proof (N.div_mod k 32 ltac:(lia)) as Ek.
  pose proof (N.mod_lt n 32 ltac:(lia)). pose proof (N.mod_lt k 32 ltac:(lia)).
  destruct (Nat.eqb (N.to_nat (n / 32)) (N.to_nat (k / 32))) eqn:Ew.
  - apply Nat.eqb_eq in Ew. assert (Hq: n / 32 = k / 32) by lia.
    rewrite N.lor_spec, N.pow2_bits_eqb.
    destruct (N.eqb (n mod 32) (k mod 32)) eqn:Eb.
    + apply N.eqb_eq in Eb. replace (n =? k) with true by lia. rewrite orb_true_r. auto.
    + apply N.eqb_neq in Eb. replace (n =? k) with false by lia. rewrite orb_false_r. auto.
  - apply Nat.eqb_neq in Ew. replace (n =? k) with false; auto. symmetry. apply N.eqb_neq. intros ->. apply Ew. auto.
Qed.

(* building from a list: exactly the requested bits *)
Fixpoint build_mask (m : maskT) (l : list N) : option maskT :=
  match l with [] => Some m | n :: r => match set_syscall m n with Some m' => build_mask m' r | None => None end end.
Theorem build_mask_bits : forall l m m' k, build_mask m l = Some m' ->
  testbit_mask m' k = existsb (N.eqb k) l || testbit_mask m k.
Proof.
  induction l as [|n r IH]; intros m m' k H; cbn in H.
  - inversion H; subst. auto.
  - destruct (set_syscall m n) as [m1|] eqn:E; try discriminate. rewrite (IH _ _ _ H). rewrite (testbit_set_syscall _ _ _ k E).
    cbn [existsb]. rewrite (N.eqb_sym k n). destruct (n =? k); destruct (existsb (N.eqb k) r); auto.
Qed.
Corollary build_mask_exact l m' k : build_mask (repeat 0 64) l = Some m' -> (testbit_mask m' k = true <-> In k l).
Proof.
  intros H. rewrite (build_mask_bits _ _ _ k H).
  assert (Z0: testbit_mask (repeat 0 64) k = false).
  { unfold testbit_mask. replace (nth (N.to_nat (k / 32)) (repeat 0 64) 0) with 0. apply N.bits_0.
    symmetry. destruct (le_lt_dec 64 (N.to_nat (k / 32))). apply nth_overflow. rewrite repeat_length. lia. apply nth_repeat. }
  rewrite Z0, orb_false_r. rewrite existsb_exists. split.
  - intros (x & Hx & He). apply N.eqb_eq in He. subst. auto.
  - intros Hi. exists k. split; auto. apply N.eqb_refl.
Qed.
Print Assumptions build_mask_exact.
