(* Model/ToMap.v — AuditMessage.ToMapStr: the parsed pairs first, then the four header keys written over them
   (and tags / error, which are not strings and are kept apart).  Go: out[k] = v for the data, then
   out["record_type"], out["@timestamp"], out["sequence"], out["raw_msg"]. *)
From Coq Require Import List Ascii String NArith Bool.
Import ListNotations.
Require Import KV Parser.
Local Open Scope list_scope.

Definition mput (k v : str) (m : list (str * str)) : list (str * str) := (k, v) :: filter (fun e => negb (beq (fst e) k)) m.
Fixpoint mget (k : str) (m : list (str * str)) : option str := match m with [] => None | (k', v) :: r => if beq k' k then Some v else mget k r end.
Definition to_map_base (rt ts sq raw : str) (data : list (str * str)) : list (str * str) :=
  mput (L "raw_msg") raw (mput (L "sequence") sq (mput (L "@timestamp") ts (mput (L "record_type") rt (fold_left (fun a kv => mput (fst kv) (snd kv) a) data [])))).

(* with the error of Data(), if any, written last: out["error"] = err.Error() *)
Definition to_map_str (rt ts sq raw : str) (data : list (str * str)) : list (str * str) := to_map_base rt ts sq raw data.
Definition to_map_str_err (rt ts sq raw : str) (data : option (list (str * str))) (err : option str) : list (str * str) :=
  let m := to_map_base rt ts sq raw (match data with Some d => d | None => [] end) in
  match err with Some e => mput (L "error") e m | None => m end.

Lemma beq_refl_m a : beq a a = true.
Proof. induction a as [|c a IH]; cbn; auto. rewrite Ascii.eqb_refl, IH. reflexivity. Qed.
Lemma mget_mput_same k v m : mget k (mput k v m) = Some v.
Proof. unfold mput. cbn. rewrite beq_refl_m. reflexivity. Qed.
Lemma mget_mput_other k k' v m : beq k' k = false -> mget k (mput k' v m) = mget k m.
Proof.
  intros H. unfold mput. cbn. rewrite H. induction m as [|[k2 v2] m IH]; cbn; auto.
  destruct (beq k2 k') eqn:E; cbn.
  - destruct (beq k2 k) eqn:E2; auto. exfalso.
    assert (forall a b, beq a b = true -> a = b) as beq_eq.
    { clear. induction a as [|x a IH]; intros [|y b] H; cbn in H; try discriminate; auto. apply andb_prop in H. destruct H as [H1 H2]. apply Ascii.eqb_eq in H1. subst. f_equal. auto. }
    apply beq_eq in E. apply beq_eq in E2. subst. rewrite beq_refl_m in H. discriminate.
  - destruct (beq k2 k); auto.
Qed.

(* the four header keys always carry the header's values, whatever the body contained - even fields with those very names *)
Theorem to_map_str_header_keys rt ts sq raw data :
  let m := to_map_str rt ts sq raw data in
  mget (L "record_type") m = Some rt /\ mget (L "@timestamp") m = Some ts /\ mget (L "sequence") m = Some sq /\ mget (L "raw_msg") m = Some raw.
Proof.
  cbv zeta. unfold to_map_str, to_map_base. repeat split.
Qed.
(* every other field of the body is reported with the value Data() gave it (keys of a Go map are distinct) *)
Theorem to_map_str_keeps_data rt ts sq raw data k v :
  NoDup (map fst data) -> In (k, v) data ->
  beq (L "record_type") k = false -> beq (L "@timestamp") k = false -> beq (L "sequence") k = false -> beq (L "raw_msg") k = false ->
  mget k (to_map_str rt ts sq raw data) = Some v.
Proof.
  intros Hn Hin H1 H2 H3 H4. unfold to_map_str, to_map_base. rewrite !mget_mput_other by assumption.
  assert (G: forall d acc, NoDup (map fst d) -> In (k, v) d -> mget k (fold_left (fun a kv => mput (fst kv) (snd kv) a) d acc) = Some v).
  { clear. induction d as [|[k' v'] d IH]; intros acc Hn Hin; [contradiction|]. cbn [fold_left fst snd]. inversion Hn as [|? ? Hnot Hn']; subst.
    destruct Hin as [E|Hin]; [|apply IH; auto]. injection E as -> ->.
    assert (K: forall d acc, ~ In k (map fst d) -> mget k acc = Some v -> mget k (fold_left (fun a kv => mput (fst kv) (snd kv) a) d acc) = Some v).
    { clear. induction d as [|[k2 v2] d IH]; intros acc Hnot H; cbn [fold_left fst snd]; auto. apply IH. intros C; apply Hnot; right; exact C.
      rewrite mget_mput_other; auto. destruct (beq k2 k) eqn:E; auto. exfalso. apply Hnot. left. cbn.
      assert (forall a b, beq a b = true -> a = b) as beq_eq.
      { clear. induction a as [|x a IHa]; intros [|y b] H; cbn in H; try discriminate; auto. apply andb_prop in H. destruct H as [H1 H2]. apply Ascii.eqb_eq in H1. subst. f_equal. auto. }
      apply beq_eq. exact E. }
    apply K; auto. apply mget_mput_same. }
  apply G; auto.
Qed.
Theorem to_map_str_err_header_keys rt ts sq raw data err :
  let m := to_map_str_err rt ts sq raw data err in
  mget (L "record_type") m = Some rt /\ mget (L "@timestamp") m = Some ts /\ mget (L "sequence") m = Some sq /\ mget (L "raw_msg") m = Some raw.
Proof. cbv zeta. unfold to_map_str_err, to_map_base. destruct err; repeat split. Qed.
Print Assumptions to_map_str_header_keys.
Print Assumptions to_map_str_keeps_data.
