(* Model/RuleValue.v — the value parsers of rule.addFilter: the text after the operator of a
   "-F field<op>text" filter to the 32-bit value the kernel is sent (getUID / getGID numeric part,
   getExitCode, getAuditMsgType, getPerm, getFiletype, getArch, parseNum), and addSyscall's
   text-to-number step.  VLookup = the code asks the operating system (user / group database):
   outside the model. *)
From Coq Require Import List Ascii String Arith NArith ZArith Bool Lia.
Import ListNotations.
Require Import Bytes Dec Strconv Mach RuleTables Arch Errno Syscalls MsgType RuleDecode RuleText.
Local Open Scope string_scope.
Local Open Scope list_scope.
Open Scope N_scope.

Inductive vres := VOk (n : N) | VErr | VLookup.

Definition u32_of_Z (z : Z) : N := Z.to_N (z mod 4294967296)%Z.

Definition parse_id (s : str) : vres :=
  if str_eqb_s s "unset" then VOk 4294967295
  else match parse_int s 10 32 with
       | ZOk z => if (z <? 0)%Z then VOk (u32_of_Z z)
                  else match parse_uint s 10 32 with POk n => VOk n | PErr ErrSyntax => VLookup | PErr ErrRange => VErr end
       | ZErr _ => match parse_uint s 10 32 with POk n => VOk n | PErr ErrSyntax => VLookup | PErr ErrRange => VErr end
       end.

Definition parse_exit (s : str) : vres :=
  match parse_int s 0 32 with
  | ZOk z => VOk (u32_of_Z z)
  | ZErr ErrRange => VErr
  | ZErr ErrSyntax =>
      let '(neg, nm) := match s with c :: r => if N_of_ascii c =? 45 then (true, r) else (false, s) | [] => (false, s) end in
      match lookupS nm errno_to_num with
      | Some n => VOk (u32_of_Z (if neg then - n else n)%Z)
      | None => VErr
      end
  end.

Definition parse_msgtype (s : str) : vres :=
  match parse_uint s 0 32 with
  | POk n => VOk n
  | PErr ErrRange => VErr
  | PErr ErrSyntax => match get_type s with Some t => VOk t | None => VErr end
  end.

Fixpoint parse_perm (s : str) (acc : N) : vres :=
  match s with
  | [] => VOk acc
  | c :: r => match N_of_ascii c with
              | 114 => parse_perm r (N.lor acc 4) | 119 => parse_perm r (N.lor acc 2)
              | 120 => parse_perm r (N.lor acc 1) | 97 => parse_perm r (N.lor acc 8) | _ => VErr end
  end.

Definition filetype_names : list (string * N) :=
  [("file", 32768); ("dir", 16384); ("socket", 49152); ("symlink", 40960); ("char", 8192); ("block", 24576); ("fifo", 4096)].
Definition parse_filetype (s : str) : vres :=
  match lookupS (to_lower_ascii s) filetype_names with
  | Some v => VOk v
  | None => match parse_uint s 0 32 with POk n => VOk n | PErr _ => VErr end
  end.

(* getArch: the name the rule keeps for syscall lookups, and the value *)
Definition get_arch (s : str) : option (str * N) :=
  let l := to_lower_ascii s in
  let real :=
    if str_eqb_s l "b64" then
      match runtime_arch with
      | Some rs => if mem_s rs ["aarch64"; "x86_64"; "ppc64"; "s390x"] then Some (s2l rs) else None
      | None => None end
    else if str_eqb_s l "b32" then
      match runtime_arch with
      | Some rs => if mem_s rs ["arm"; "i386"; "s390"] then Some (s2l rs)
                   else if String.eqb rs "aarch64" then Some (s2l "arm") else if String.eqb rs "x86_64" then Some (s2l "i386")
                   else if String.eqb rs "ppc64" then Some (s2l "ppc") else if String.eqb rs "s390x" then Some (s2l "s390") else None
      | None => None end
    else Some s in
  match real with
  | None => None
  | Some ra => match lookupS ra reverse_arch with Some v => Some (ra, v) | None => None end
  end.

Definition parse_numv (s : str) : vres := match parse_num s with POk n => VOk n | PErr _ => VErr end.

(* by field code *)
Definition parse_value (f : N) (s : str) : vres :=
  if existsb (N.eqb f) uid_fields || existsb (N.eqb f) gid_fields then parse_id s
  else if f =? 103 then parse_exit s
  else if f =? 12 then parse_msgtype s
  else if f =? 11 then match get_arch s with Some (_, v) => VOk v | None => VErr end
  else if f =? 106 then parse_perm s 0
  else if f =? 108 then parse_filetype s
  else if f =? 113 then match parse_numv s with VOk n => if (n =? 2) || (n =? 10) then VOk n else VErr | r => r end
  else parse_numv s.

(* addSyscall's number: strconv.Atoi, else the name in the table of the rule's arch *)
Definition syscall_number (arch : str) (s : str) : option N :=
  match parse_int s 10 64 with
  | ZOk z => Some (u32_of_Z z)
  | ZErr ErrRange => None
  | ZErr ErrSyntax =>
      match lookupS arch reverse_syscalls with
      | None => None
      | Some t => match lookupS s t with Some z => Some (u32_of_Z z) | None => None end
      end
  end.
