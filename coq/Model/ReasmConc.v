From Coq Require Import List ZArith Bool Lia Permutation.
Import ListNotations.
Require Import Reassembler ReasmInv ReasmC01.
Open Scope Z_scope.

(* ---------- concurrent small-step model ---------- *)
Inductive call := CPush (m : msg) | CMaintain | CClose.
Inductive frame :=
  | FCall (c : call)
  | FPut (m : msg) | FCleanUp | FLoad | FCas | FClear
  | FDeliver (g : list msg) | FLostCb (n : Z) | FRet (c : call) (ok : bool).
Record thread := { stack : list frame; todo : list call }.
Inductive ev := EvComplete (t : nat) (g : list msg) | EvLost (t : nat) (n : Z)
              | EvPut (t : nat) (m : msg) | EvCasOk (t : nat) | EvClear (t : nat) | EvRet (t : nat) (c : call) (ok : bool).

Definition deliver_frames (outs : list out) : list frame :=
  flat_map (fun o => match o with Complete g => [FDeliver g] | Lost n => [FLostCb n] | _ => [] end) outs.

(* Stream callback behaviour: calls made re-entrantly from inside ReassemblyComplete *)
Section WithCb.
Variable cb : list msg -> list call.
Variable cfg : config.

Definition exec (t : nat) (now : Z) (f : frame) (s : state) : state * list frame * list ev :=
  match f with
  | FCall (CPush m) => (s, [FPut m; FCleanUp; FRet (CPush m) true], [])
  | FCall CMaintain => (s, [FLoad], [])
  | FCall CClose => (s, [FCas], [])
  | FPut m => (put cfg now m s, [], [EvPut t m])
  | FCleanUp => let '(s', outs) := cleanup false cfg now s in (s', deliver_frames outs, [])
  | FLoad => if closed s then (s, [FRet CMaintain false], []) else (s, [FCleanUp; FRet CMaintain true], [])
  | FCas => if closed s then (s, [FRet CClose false], [])
            else ({| seqs := seqs s; events := events s; lastSeq := lastSeq s; hasLast := hasLast s; closed := true |},
                  [FClear; FRet CClose true], [EvCasOk t])
  | FClear => let '(s', outs) := cleanup true cfg now s in (s', deliver_frames outs, [EvClear t])
  | FDeliver g => (s, map FCall (cb g), [EvComplete t g])
  | FLostCb n => (s, [], [EvLost t n])
  | FRet c ok => (s, [], [EvRet t c ok])
  end.

Definition tstep (t : nat) (now : Z) (th : thread) (s : state) : thread * state * list ev :=
  match stack th with
  | f :: rest => let '(s', fs, evs) := exec t now f s in ({| stack := fs ++ rest; todo := todo th |}, s', evs)
  | [] => match todo th with
          | c :: cs => ({| stack := [FCall c]; todo := cs |}, s, [])
          | [] => (th, s, [])
          end
  end.

Fixpoint upd {A} (n : nat) (x : A) (l : list A) : list A :=
  match n, l with O, _ :: r => x :: r | S k, y :: r => y :: upd k x r | _, [] => [] end.

Fixpoint crun (sched : list (nat * Z)) (ths : list thread) (s : state) : list thread * state * list ev :=
  match sched with
  | [] => (ths, s, [])
  | (t, now) :: r =>
      match nth_error ths t with
      | None => crun r ths s
      | Some th => let '(th', s', evs) := tstep t now th s in
                   let '(ths'', s'', evs') := crun r (upd t th' ths) s' in (ths'', s'', evs ++ evs')
      end
  end.

(* ---------- observables ---------- *)
Definition delivered (tr : list ev) : list msg := flat_map (fun e => match e with EvComplete _ g => g | _ => [] end) tr.
Definition putmsgs (tr : list ev) : list msg :=
  flat_map (fun e => match e with EvPut _ m => if mty m =? AUDIT_EOE then [] else [m] | _ => [] end) tr.
Definition cas_oks (tr : list ev) : nat := length (filter (fun e => match e with EvCasOk _ => true | _ => false end) tr).
Definition pending_f (f : frame) : list msg := match f with FDeliver g => g | _ => [] end.
Definition pending (ths : list thread) : list msg := flat_map (fun th => flat_map pending_f (stack th)) ths.
Definition buffered (s : state) : list msg := flat_map (fun k => match lookup k (events s) with Some e => msgs e | None => [] end) (seqs s).

End WithCb.

