(* Model/RuleEncode.v — rule.Build on structured rules: the restrictions of
   addFilter / addInterFieldComparator / addSyscall / addKeys / addFileWatch over
   the generated tables, toAuditRuleData and toWireFormat. *)
From Coq Require Import List Ascii String Arith NArith ZArith Bool Lia.
Import ListNotations.
Require Import Bytes Mach RuleTables RuleDecode Mask.
Local Open Scope string_scope.
Open Scope N_scope.

Inductive fval := VNum (n : N) | VStr (s : str).
Inductive item := IFilter (field op : string) (v : fval) | ICompare (l op r : string).
Record rspec := { sp_list : string; sp_action : string; sp_items : list item; sp_all : bool; sp_syscalls : list N; sp_keys : list str }.

Definition streq (a b : string) : bool := String.eqb a b.
Definition mem (a : string) (l : list string) : bool := existsb (streq a) l.

(* list and action codes of the rule package (filter / action constants) *)
Definition list_code (l : string) : option N :=
  if streq l "user" then Some 0 else if streq l "task" then Some 1 else if streq l "exit" then Some 4 else if streq l "exclude" then Some 5 else None.
Definition action_code (a : string) : option N := if streq a "never" then Some 0 else if streq a "always" then Some 2 else None.

Definition exit_only : list string :=
  ["exit"; "obj_user"; "obj_role"; "obj_type"; "obj_lev_low"; "obj_lev_high"; "path"; "dir"; "perm"; "filetype"; "inode"; "devmajor"; "devminor"; "success"; "ppid"].
Definition exclude_ok : list string :=
  ["pid"; "uid"; "gid"; "auid"; "msgtype"; "subj_user"; "subj_role"; "subj_type"; "subj_sen"; "subj_clr"; "exe"].
Definition eq_ne (op : string) : bool := streq op "=" || streq op "!=".

Definition key_sep : ascii := ascii_of_N key_separator.
Fixpoint join_keys (ks : list str) : str :=
  match ks with [] => [] | [k] => k | k :: r => (k ++ key_sep :: join_keys r)%list end.

Record wiredata := { w_flags : N; w_action : N; w_mask : list N; w_triples : list (N * N * N); w_strings : list str }.

Definition add_item (lst : string) (acc : list (N * N * N) * list str) (it : item) : option (list (N * N * N) * list str) :=
  let '(ts, ss) := acc in
  match it with
  | ICompare l op r =>
      match lookupS (s2l op) operators_table, lookupS (s2l l) fields_table, lookupS (s2l r) fields_table with
      | Some oc, Some lf, Some rf =>
          if eq_ne op then
            match lookupN lf comparisons_table with
            | Some t => match lookupN rf t with Some c => Some ((ts ++ [(111, oc, c)])%list, ss) | None => None end
            | None => None end
          else None
      | _, _, _ => None
      end
  | IFilter f op v =>
      match lookupS (s2l op) operators_table, lookupS (s2l f) fields_table with
      | Some oc, Some fc =>
          if (streq lst "exclude" && negb (mem f exclude_ok)) then None
          else if (mem f exit_only && negb (streq lst "exit")) then None
          else if (streq f "msgtype" && negb (streq lst "user" || streq lst "exclude")) then None
          else if (streq f "arch" || streq f "inode") && negb (eq_ne op) then None
          else if streq f "perm" && negb (streq op "=") then None
          else match v with
               | VStr sv =>
                   if negb (is_string_field fc) then None
                   else if (if streq f "key" then max_key_length else path_max) <? N.of_nat (List.length sv) then None
                   else Some ((ts ++ [(fc, oc, N.of_nat (List.length sv))])%list, (ss ++ [sv])%list)
               | VNum n =>
                   if is_string_field fc then None
                   else if streq f "saddr_fam" && negb ((n =? 2) || (n =? 10)) then None
                   else Some ((ts ++ [(fc, oc, n mod 2^32)])%list, ss)
               end
      | _, _ => None
      end
  end.

Fixpoint add_items (lst : string) (acc : list (N * N * N) * list str) (its : list item) : option (list (N * N * N) * list str) :=
  match its with [] => Some acc | it :: r => match add_item lst acc it with Some a => add_items lst a r | None => None end end.

Definition all_mask : list N := repeat 4294967295 63 ++ [65535].
Definition set_all (m : list N) (ns : list N) : option (list N) := build_mask m ns.

Definition add_keys (acc : list (N * N * N) * list str) (keys : list str) : option (list (N * N * N) * list str) :=
  match keys with
  | [] => Some acc
  | _ => let k := join_keys keys in
         if (List.length k =? 0)%nat then None                                  (* an empty key is refused *)
         else if max_key_length <? N.of_nat (List.length k) then None
         else match lookupS (s2l "=") operators_table with
              | Some eqc => Some ((fst acc ++ [(210, eqc, N.of_nat (List.length k))])%list, (snd acc ++ [k])%list)
              | None => None end
  end.

Definition data_of_spec (s : rspec) : option wiredata :=
  match list_code (sp_list s), action_code (sp_action s) with
  | Some lc, Some ac =>
      match add_items (sp_list s) ([], []) (sp_items s) with
      | None => None
      | Some acc =>
          match (if sp_all s then Some all_mask else set_all (repeat 0 64) (sp_syscalls s)) with
          | None => None
          | Some m =>
              match (if streq (sp_list s) "exclude" then match sp_keys s with [] => Some acc | _ => None end   (* key is not a field of the exclude list *)
                     else add_keys acc (sp_keys s)) with
              | None => None
              | Some (ts, ss) => if (64 <? List.length ts)%nat then None
                                 else Some {| w_flags := lc; w_action := ac; w_mask := m; w_triples := ts; w_strings := ss |}
              end
          end
      end
  | _, _ => None
  end.

(* addFileWatch for a clean absolute path; is_dir is the os.Stat oracle *)
Definition perm_bits (p : str) : N :=
  fold_left (fun acc c => N.lor acc (match N_of_ascii c with 114 => 4 | 119 => 2 | 120 => 1 | 97 => 8 | _ => 0 end)) p 0.
Definition data_of_watch (path : str) (is_dir : bool) (perms : str) (keys : list str) : option wiredata :=
  match lookupS (s2l "=") operators_table, lookupS (s2l (if is_dir then "dir" else "path")) fields_table, lookupS (s2l "perm") fields_table with
  | Some eqc, Some pf, Some permf =>
      if path_max <? N.of_nat (List.length path) then None
      else match add_keys ([(pf, eqc, N.of_nat (List.length path)); (permf, eqc, match perms with [] => 15 | _ => perm_bits perms end)], [path]) keys with
           | Some (ts, ss) => Some {| w_flags := 4; w_action := 2; w_mask := all_mask; w_triples := ts; w_strings := ss |}
           | None => None end
  | _, _, _ => None
  end.

(* toAuditRuleData + toWireFormat *)
Definition pad64 (l : list N) : list N := firstn 64 (l ++ repeat 0 64).
Definition to_wire (d : wiredata) : str :=
  let ts := w_triples d in
  let buf := List.concat (w_strings d) in
  let n := (1040 + List.length buf)%nat in
  (words_to_bytes ([w_flags d; w_action d; N.of_nat (List.length ts)] ++ w_mask d
                   ++ pad64 (map (fun t => fst (fst t)) ts) ++ pad64 (map snd ts) ++ pad64 (map (fun t => snd (fst t)) ts)
                   ++ [N.of_nat (List.length buf)])
   ++ buf ++ repeat (ascii_of_N 0) ((4 - n mod 4) mod 4))%list.

Definition build_spec (s : rspec) : option str := option_map to_wire (data_of_spec s).
Definition build_watch path is_dir perms keys : option str := option_map to_wire (data_of_watch path is_dir perms keys).
