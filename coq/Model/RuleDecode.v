(* Model/RuleWire.v (prototype, decode half) — fromWireFormat + fromAuditRuleData with explicit panics, repaired guards. *)
From Coq Require Import List Ascii NArith ZArith Bool Lia ZifyBool ZifyN ZifyNat.
Import ListNotations.
Require Import Mach RuleSwitches.
Open Scope N_scope.
Local Arguments N.mul : simpl never.
Local Arguments N.add : simpl never.

Inductive derr := EUnexpectedEOF | ETooManyFields (n : N) | EFieldOverflow (i : nat).
Inductive res (A : Type) := Ok (a : A) | Err (e : derr) | Panic.
Arguments Ok {A}. Arguments Err {A}. Arguments Panic {A}.

Record hdr := { flags : N; action : N; fcount : N; mask : list N; fields : list N; values : list N; fflags : list N; buflen : N }.

Definition seg (off len : nat) (ws : list N) : list N := firstn len (skipn off ws).
Definition wd (i : nat) (ws : list N) : N := nth i ws 0.
Arguments seg : simpl never.
Arguments wd : simpl never.
Lemma seg_length off len ws : (off + len <= length ws)%nat -> length (seg off len ws) = len.
Proof. intros H. unfold seg. rewrite firstn_length, skipn_length. lia. Qed.

Definition from_wire (data : str) : res (hdr * str) :=
  if (length data <? 1040)%nat then Err EUnexpectedEOF else
  match bytes_to_words 260 data with
  | None => Panic
  | Some (ws, rest) =>
      let h := {| flags := wd 0 ws; action := wd 1 ws; fcount := wd 2 ws;
                  mask := seg 3 64 ws; fields := seg 67 64 ws;
                  values := seg 131 64 ws; fflags := seg 195 64 ws; buflen := wd 259 ws |} in
      if N.of_nat (length rest) <? buflen h then Err EUnexpectedEOF
      else Ok (h, firstn (N.to_nat (buflen h)) rest)
  end.

(* string-valued fields: the case list of the switch in fromAuditRuleData, read from the source by the translator (Gen/RuleSwitches.v) *)
Definition is_string_field (f : N) : bool := existsb (N.eqb f) sw_string_fields_decode.

Record rdata := { r_fields : list (N * N * N); r_strings : list str }.   (* (field, op, value) in order *)

(* checked slice: None = Go would panic *)
Definition slice (s : str) (lo hi : nat) : option str :=
  if (lo <=? hi)%nat && (hi <=? length s)%nat then Some (firstn (hi - lo) (skipn lo s)) else None.

Fixpoint walk (n : nat) (i : nat) (h : hdr) (buf : str) (offset : N) (acc : rdata) : res rdata :=
  match n with
  | O => Ok acc
  | S k =>
      match nth_error (fields h) i, nth_error (fflags h) i, nth_error (values h) i with
      | Some f, Some o, Some v =>
          if is_string_field f then
            if buflen h - offset <? v                                  (* repaired guard: no uint32 wrap *)
            then Err (EFieldOverflow i)
            else match slice buf (N.to_nat offset) (N.to_nat (offset + v)) with
                 | None => Panic
                 | Some sv => walk k (S i) h buf (offset + v)
                                {| r_fields := r_fields acc ++ [(f, o, v)]; r_strings := r_strings acc ++ [sv] |}
                 end
          else walk k (S i) h buf offset {| r_fields := r_fields acc ++ [(f, o, v)]; r_strings := r_strings acc |}
      | _, _, _ => Panic                                              (* index out of range on a [64] array *)
      end
  end.

Definition from_audit_rule_data (h : hdr) (buf : str) : res rdata :=
  if 64 <? fcount h then Err (ETooManyFields (fcount h))               (* repaired guard *)
  else walk (N.to_nat (fcount h)) 0 h buf 0 {| r_fields := []; r_strings := [] |}.

Definition decode (data : str) : res rdata :=
  match from_wire data with
  | Ok (h, buf) => from_audit_rule_data h buf
  | Err e => Err e
  | Panic => Panic
  end.

(* ---------- totality ---------- *)
Definition wf_hdr (h : hdr) (buf : str) : Prop :=
  length (fields h) = 64%nat /\ length (values h) = 64%nat /\ length (fflags h) = 64%nat /\ length (mask h) = 64%nat /\
  N.of_nat (length buf) = buflen h.

Lemma from_wire_wf data h buf : from_wire data = Ok (h, buf) -> wf_hdr h buf.
Proof.
  unfold from_wire. destruct (length data <? 1040)%nat eqn:El; try discriminate.
  destruct (bytes_to_words 260 data) as [[ws rest]|] eqn:Eb; try discriminate.
  destruct (bytes_to_words_sound _ _ _ _ Eb) as (Hl & _ & _).
  cbn [buflen]. destruct (N.of_nat (length rest) <? wd 259 ws) eqn:Eq; try discriminate.
  intros H. injection H as Hh Hb. subst h buf. unfold wf_hdr. cbn [fields values fflags mask buflen].
  repeat split; try (apply seg_length; lia).
  apply N.ltb_ge in Eq. rewrite firstn_length. lia.
Qed.

Lemma from_wire_no_panic data : from_wire data <> Panic.
Proof.
  unfold from_wire. destruct (length data <? 1040)%nat eqn:El; try discriminate.
  pose proof (bytes_to_words_total 260 data) as Ht. destruct (bytes_to_words 260 data) as [[ws rest]|].
  - destruct (_ <? _); discriminate.
  - exfalso. apply Ht; auto. apply Nat.ltb_ge in El. lia.
Qed.

Lemma walk_no_panic : forall n i h buf offset acc, wf_hdr h buf -> (i + n <= 64)%nat -> offset <= buflen h ->
  walk n i h buf offset acc <> Panic.
Proof.
  induction n as [|n IH]; intros i h buf offset acc Hwf Hi Ho; cbn [walk]. discriminate.
  destruct Hwf as (Hf & Hv & Hff & Hm & Hb).
  destruct (nth_error (fields h) i) as [f|] eqn:E1. 2:{ apply nth_error_None in E1. lia. }
  destruct (nth_error (fflags h) i) as [o|] eqn:E2. 2:{ apply nth_error_None in E2. lia. }
  destruct (nth_error (values h) i) as [v|] eqn:E3. 2:{ apply nth_error_None in E3. lia. }
  destruct (is_string_field f).
  - destruct (buflen h - offset <? v) eqn:Ev; try discriminate.
    unfold slice. replace ((N.to_nat offset <=? N.to_nat (offset + v))%nat && (N.to_nat (offset + v) <=? length buf)%nat) with true by lia.
    apply IH; try lia. repeat split; auto.
  - apply IH; try lia. repeat split; auto.
Qed.

Theorem decode_no_panic data : decode data <> Panic.
Proof.
  unfold decode. destruct (from_wire data) as [[h buf]|e|] eqn:E; try discriminate.
  - unfold from_audit_rule_data. destruct (64 <? fcount h) eqn:Ef; try discriminate.
    apply walk_no_panic; try lia. eapply from_wire_wf; eauto.
  - exfalso. eapply from_wire_no_panic; eauto.
Qed.

(* whenever decoding succeeds the bytes were a structurally valid rule *)
Theorem decode_ok_valid data r : decode data = Ok r ->
  exists h buf, from_wire data = Ok (h, buf) /\ fcount h <= 64 /\ length (r_fields r) = N.to_nat (fcount h) /\
                (1040 + N.to_nat (buflen h) <= length data)%nat.
Proof.
  unfold decode. destruct (from_wire data) as [[h buf]|e|] eqn:E; try discriminate.
  intros H. exists h, buf. split; auto. unfold from_audit_rule_data in H. destruct (64 <? fcount h) eqn:Ef; try discriminate.
  split. lia. split.
  - assert (G: forall n i offset acc r, walk n i h buf offset acc = Ok r -> length (r_fields r) = (length (r_fields acc) + n)%nat).
    { induction n as [|n IH]; intros i offset acc r0 Hw; cbn [walk] in Hw. inversion Hw; subst; lia.
      destruct (nth_error (fields h) i) as [f|]; try discriminate. destruct (nth_error (fflags h) i) as [o|]; try discriminate. destruct (nth_error (values h) i) as [v|]; try discriminate.
      destruct (is_string_field f).
      - destruct (buflen h - offset <? v); try discriminate. destruct (slice _ _ _); try discriminate. apply IH in Hw. cbn [r_fields] in Hw. rewrite app_length in Hw. cbn in Hw. lia.
      - apply IH in Hw. cbn [r_fields] in Hw. rewrite app_length in Hw. cbn in Hw. lia. }
    apply G in H. cbn in H. lia.
  - revert E. unfold from_wire. destruct (length data <? 1040)%nat eqn:El; try discriminate.
    destruct (bytes_to_words 260 data) as [[ws rest]|] eqn:Eb; try discriminate.
    destruct (bytes_to_words_sound _ _ _ _ Eb) as (Hl & _ & Hs). cbn [buflen].
    destruct (N.of_nat (length rest) <? wd 259 ws) eqn:Eq; try discriminate. intros H'. injection H' as Hh Hb. subst h buf. cbn [buflen].
    rewrite Hs, app_length, length_words_to_bytes, Hl. apply N.ltb_ge in Eq. lia.
Qed.
Print Assumptions decode_no_panic.
Print Assumptions decode_ok_valid.
