Base/Bytes.vo Base/Bytes.glob Base/Bytes.v.beautified Base/Bytes.required_vo: Base/Bytes.v Base/Dec.vo
Base/Bytes.vio: Base/Bytes.v Base/Dec.vio
Base/Bytes.vos Base/Bytes.vok Base/Bytes.required_vos: Base/Bytes.v Base/Dec.vos
Base/Dec.vo Base/Dec.glob Base/Dec.v.beautified Base/Dec.required_vo: Base/Dec.v 
Base/Dec.vio: Base/Dec.v 
Base/Dec.vos Base/Dec.vok Base/Dec.required_vos: Base/Dec.v 
Base/Hex.vo Base/Hex.glob Base/Hex.v.beautified Base/Hex.required_vo: Base/Hex.v 
Base/Hex.vio: Base/Hex.v 
Base/Hex.vos Base/Hex.vok Base/Hex.required_vos: Base/Hex.v 
Base/Mach.vo Base/Mach.glob Base/Mach.v.beautified Base/Mach.required_vo: Base/Mach.v 
Base/Mach.vio: Base/Mach.v 
Base/Mach.vos Base/Mach.vok Base/Mach.required_vos: Base/Mach.v 
Base/Strconv.vo Base/Strconv.glob Base/Strconv.v.beautified Base/Strconv.required_vo: Base/Strconv.v Base/Dec.vo
Base/Strconv.vio: Base/Strconv.v Base/Dec.vio
Base/Strconv.vos Base/Strconv.vok Base/Strconv.required_vos: Base/Strconv.v Base/Dec.vos
Gen/Arch.vo Gen/Arch.glob Gen/Arch.v.beautified Gen/Arch.required_vo: Gen/Arch.v 
Gen/Arch.vio: Gen/Arch.v 
Gen/Arch.vos Gen/Arch.vok Gen/Arch.required_vos: Gen/Arch.v 
Gen/AuditConsts.vo Gen/AuditConsts.glob Gen/AuditConsts.v.beautified Gen/AuditConsts.required_vo: Gen/AuditConsts.v 
Gen/AuditConsts.vio: Gen/AuditConsts.v 
Gen/AuditConsts.vos Gen/AuditConsts.vok Gen/AuditConsts.required_vos: Gen/AuditConsts.v 
Gen/Errno.vo Gen/Errno.glob Gen/Errno.v.beautified Gen/Errno.required_vo: Gen/Errno.v 
Gen/Errno.vio: Gen/Errno.v 
Gen/Errno.vos Gen/Errno.vok Gen/Errno.required_vos: Gen/Errno.v 
Gen/EventTypes.vo Gen/EventTypes.glob Gen/EventTypes.v.beautified Gen/EventTypes.required_vo: Gen/EventTypes.v 
Gen/EventTypes.vio: Gen/EventTypes.v 
Gen/EventTypes.vos Gen/EventTypes.vok Gen/EventTypes.required_vos: Gen/EventTypes.v 
Gen/MsgTypes.vo Gen/MsgTypes.glob Gen/MsgTypes.v.beautified Gen/MsgTypes.required_vo: Gen/MsgTypes.v 
Gen/MsgTypes.vio: Gen/MsgTypes.v 
Gen/MsgTypes.vos Gen/MsgTypes.vok Gen/MsgTypes.required_vos: Gen/MsgTypes.v 
Gen/Norms.vo Gen/Norms.glob Gen/Norms.v.beautified Gen/Norms.required_vo: Gen/Norms.v 
Gen/Norms.vio: Gen/Norms.v 
Gen/Norms.vos Gen/Norms.vok Gen/Norms.required_vos: Gen/Norms.v 
Gen/RegexPins.vo Gen/RegexPins.glob Gen/RegexPins.v.beautified Gen/RegexPins.required_vo: Gen/RegexPins.v 
Gen/RegexPins.vio: Gen/RegexPins.v 
Gen/RegexPins.vos Gen/RegexPins.vok Gen/RegexPins.required_vos: Gen/RegexPins.v 
Gen/RuleTables.vo Gen/RuleTables.glob Gen/RuleTables.v.beautified Gen/RuleTables.required_vo: Gen/RuleTables.v 
Gen/RuleTables.vio: Gen/RuleTables.v 
Gen/RuleTables.vos Gen/RuleTables.vok Gen/RuleTables.required_vos: Gen/RuleTables.v 
Gen/Syscalls.vo Gen/Syscalls.glob Gen/Syscalls.v.beautified Gen/Syscalls.required_vo: Gen/Syscalls.v 
Gen/Syscalls.vio: Gen/Syscalls.v 
Gen/Syscalls.vos Gen/Syscalls.vok Gen/Syscalls.required_vos: Gen/Syscalls.v 
Inst/MsgTypeFwd.vo Inst/MsgTypeFwd.glob Inst/MsgTypeFwd.v.beautified Inst/MsgTypeFwd.required_vo: Inst/MsgTypeFwd.v Base/Bytes.vo Model/Tables.vo
Inst/MsgTypeFwd.vio: Inst/MsgTypeFwd.v Base/Bytes.vio Model/Tables.vio
Inst/MsgTypeFwd.vos Inst/MsgTypeFwd.vok Inst/MsgTypeFwd.required_vos: Inst/MsgTypeFwd.v Base/Bytes.vos Model/Tables.vos
Inst/MsgTypeText.vo Inst/MsgTypeText.glob Inst/MsgTypeText.v.beautified Inst/MsgTypeText.required_vo: Inst/MsgTypeText.v Base/Bytes.vo Model/Tables.vo
Inst/MsgTypeText.vio: Inst/MsgTypeText.v Base/Bytes.vio Model/Tables.vio
Inst/MsgTypeText.vos Inst/MsgTypeText.vok Inst/MsgTypeText.required_vos: Inst/MsgTypeText.v Base/Bytes.vos Model/Tables.vos
Inst/NormNames.vo Inst/NormNames.glob Inst/NormNames.v.beautified Inst/NormNames.required_vo: Inst/NormNames.v Base/Bytes.vo Model/Tables.vo
Inst/NormNames.vio: Inst/NormNames.v Base/Bytes.vio Model/Tables.vio
Inst/NormNames.vos Inst/NormNames.vok Inst/NormNames.required_vos: Inst/NormNames.v Base/Bytes.vos Model/Tables.vos
Inst/TablesOk.vo Inst/TablesOk.glob Inst/TablesOk.v.beautified Inst/TablesOk.required_vo: Inst/TablesOk.v Base/Bytes.vo Model/Tables.vo
Inst/TablesOk.vio: Inst/TablesOk.v Base/Bytes.vio Model/Tables.vio
Inst/TablesOk.vos Inst/TablesOk.vok Inst/TablesOk.required_vos: Inst/TablesOk.v Base/Bytes.vos Model/Tables.vos
Model/AVC.vo Model/AVC.glob Model/AVC.v.beautified Model/AVC.required_vo: Model/AVC.v Model/KV.vo
Model/AVC.vio: Model/AVC.v Model/KV.vio
Model/AVC.vos Model/AVC.vok Model/AVC.required_vos: Model/AVC.v Model/KV.vos
Model/Client.vo Model/Client.glob Model/Client.v.beautified Model/Client.required_vo: Model/Client.v 
Model/Client.vio: Model/Client.v 
Model/Client.vos Model/Client.vok Model/Client.required_vos: Model/Client.v 
Model/FilterRe.vo Model/FilterRe.glob Model/FilterRe.v.beautified Model/FilterRe.required_vo: Model/FilterRe.v 
Model/FilterRe.vio: Model/FilterRe.v 
Model/FilterRe.vos Model/FilterRe.vok Model/FilterRe.required_vos: Model/FilterRe.v 
Model/Header.vo Model/Header.glob Model/Header.v.beautified Model/Header.required_vo: Model/Header.v Base/Dec.vo
Model/Header.vio: Model/Header.v Base/Dec.vio
Model/Header.vos Model/Header.vok Model/Header.required_vos: Model/Header.v Base/Dec.vos
Model/KV.vo Model/KV.glob Model/KV.v.beautified Model/KV.required_vo: Model/KV.v 
Model/KV.vio: Model/KV.v 
Model/KV.vos Model/KV.vok Model/KV.required_vos: Model/KV.v 
Model/Mask.vo Model/Mask.glob Model/Mask.v.beautified Model/Mask.required_vo: Model/Mask.v 
Model/Mask.vio: Model/Mask.v 
Model/Mask.vos Model/Mask.vok Model/Mask.required_vos: Model/Mask.v 
Model/Netlink.vo Model/Netlink.glob Model/Netlink.v.beautified Model/Netlink.required_vo: Model/Netlink.v Base/Mach.vo
Model/Netlink.vio: Model/Netlink.v Base/Mach.vio
Model/Netlink.vos Model/Netlink.vok Model/Netlink.required_vos: Model/Netlink.v Base/Mach.vos
Model/ReasmConc.vo Model/ReasmConc.glob Model/ReasmConc.v.beautified Model/ReasmConc.required_vo: Model/ReasmConc.v Model/Reassembler.vo Proofs/ReasmInv.vo Proofs/ReasmC01.vo
Model/ReasmConc.vio: Model/ReasmConc.v Model/Reassembler.vio Proofs/ReasmInv.vio Proofs/ReasmC01.vio
Model/ReasmConc.vos Model/ReasmConc.vok Model/ReasmConc.required_vos: Model/ReasmConc.v Model/Reassembler.vos Proofs/ReasmInv.vos Proofs/ReasmC01.vos
Model/Reassembler.vo Model/Reassembler.glob Model/Reassembler.v.beautified Model/Reassembler.required_vo: Model/Reassembler.v 
Model/Reassembler.vio: Model/Reassembler.v 
Model/Reassembler.vos Model/Reassembler.vok Model/Reassembler.required_vos: Model/Reassembler.v 
Model/RuleDecode.vo Model/RuleDecode.glob Model/RuleDecode.v.beautified Model/RuleDecode.required_vo: Model/RuleDecode.v Base/Mach.vo
Model/RuleDecode.vio: Model/RuleDecode.v Base/Mach.vio
Model/RuleDecode.vos Model/RuleDecode.vok Model/RuleDecode.required_vos: Model/RuleDecode.v Base/Mach.vos
Model/Tables.vo Model/Tables.glob Model/Tables.v.beautified Model/Tables.required_vo: Model/Tables.v Base/Bytes.vo Gen/MsgTypes.vo Gen/Errno.vo Gen/Arch.vo Gen/Syscalls.vo Gen/RuleTables.vo Gen/Norms.vo Gen/EventTypes.vo
Model/Tables.vio: Model/Tables.v Base/Bytes.vio Gen/MsgTypes.vio Gen/Errno.vio Gen/Arch.vio Gen/Syscalls.vio Gen/RuleTables.vio Gen/Norms.vio Gen/EventTypes.vio
Model/Tables.vos Model/Tables.vok Model/Tables.required_vos: Model/Tables.v Base/Bytes.vos Gen/MsgTypes.vos Gen/Errno.vos Gen/Arch.vos Gen/Syscalls.vos Gen/RuleTables.vos Gen/Norms.vos Gen/EventTypes.vos
Model/Trim.vo Model/Trim.glob Model/Trim.v.beautified Model/Trim.required_vo: Model/Trim.v Model/KV.vo
Model/Trim.vio: Model/Trim.v Model/KV.vio
Model/Trim.vos Model/Trim.vok Model/Trim.required_vos: Model/Trim.v Model/KV.vos
Proofs/ConcAll.vo Proofs/ConcAll.glob Proofs/ConcAll.v.beautified Proofs/ConcAll.required_vo: Proofs/ConcAll.v Model/Reassembler.vo Proofs/ReasmInv.vo Proofs/ReasmC01.vo Model/ReasmConc.vo Proofs/ConcStep.vo
Proofs/ConcAll.vio: Proofs/ConcAll.v Model/Reassembler.vio Proofs/ReasmInv.vio Proofs/ReasmC01.vio Model/ReasmConc.vio Proofs/ConcStep.vio
Proofs/ConcAll.vos Proofs/ConcAll.vok Proofs/ConcAll.required_vos: Proofs/ConcAll.v Model/Reassembler.vos Proofs/ReasmInv.vos Proofs/ReasmC01.vos Model/ReasmConc.vos Proofs/ConcStep.vos
Proofs/ConcStep.vo Proofs/ConcStep.glob Proofs/ConcStep.v.beautified Proofs/ConcStep.required_vo: Proofs/ConcStep.v Model/Reassembler.vo Proofs/ReasmInv.vo Proofs/ReasmC01.vo Model/ReasmConc.vo
Proofs/ConcStep.vio: Proofs/ConcStep.v Model/Reassembler.vio Proofs/ReasmInv.vio Proofs/ReasmC01.vio Model/ReasmConc.vio
Proofs/ConcStep.vos Proofs/ConcStep.vok Proofs/ConcStep.required_vos: Proofs/ConcStep.v Model/Reassembler.vos Proofs/ReasmInv.vos Proofs/ReasmC01.vos Model/ReasmConc.vos
Proofs/ReasmC01.vo Proofs/ReasmC01.glob Proofs/ReasmC01.v.beautified Proofs/ReasmC01.required_vo: Proofs/ReasmC01.v Model/Reassembler.vo Proofs/ReasmInv.vo
Proofs/ReasmC01.vio: Proofs/ReasmC01.v Model/Reassembler.vio Proofs/ReasmInv.vio
Proofs/ReasmC01.vos Proofs/ReasmC01.vok Proofs/ReasmC01.required_vos: Proofs/ReasmC01.v Model/Reassembler.vos Proofs/ReasmInv.vos
Proofs/ReasmC02.vo Proofs/ReasmC02.glob Proofs/ReasmC02.v.beautified Proofs/ReasmC02.required_vo: Proofs/ReasmC02.v Model/Reassembler.vo Proofs/ReasmInv.vo Proofs/ReasmC01.vo Proofs/Window.vo Proofs/SortAppend.vo
Proofs/ReasmC02.vio: Proofs/ReasmC02.v Model/Reassembler.vio Proofs/ReasmInv.vio Proofs/ReasmC01.vio Proofs/Window.vio Proofs/SortAppend.vio
Proofs/ReasmC02.vos Proofs/ReasmC02.vok Proofs/ReasmC02.required_vos: Proofs/ReasmC02.v Model/Reassembler.vos Proofs/ReasmInv.vos Proofs/ReasmC01.vos Proofs/Window.vos Proofs/SortAppend.vos
Proofs/ReasmC03.vo Proofs/ReasmC03.glob Proofs/ReasmC03.v.beautified Proofs/ReasmC03.required_vo: Proofs/ReasmC03.v Model/Reassembler.vo Proofs/ReasmInv.vo Proofs/ReasmC01.vo
Proofs/ReasmC03.vio: Proofs/ReasmC03.v Model/Reassembler.vio Proofs/ReasmInv.vio Proofs/ReasmC01.vio
Proofs/ReasmC03.vos Proofs/ReasmC03.vok Proofs/ReasmC03.required_vos: Proofs/ReasmC03.v Model/Reassembler.vos Proofs/ReasmInv.vos Proofs/ReasmC01.vos
Proofs/ReasmC10.vo Proofs/ReasmC10.glob Proofs/ReasmC10.v.beautified Proofs/ReasmC10.required_vo: Proofs/ReasmC10.v Model/Reassembler.vo Proofs/ReasmInv.vo Proofs/ReasmC01.vo
Proofs/ReasmC10.vio: Proofs/ReasmC10.v Model/Reassembler.vio Proofs/ReasmInv.vio Proofs/ReasmC01.vio
Proofs/ReasmC10.vos Proofs/ReasmC10.vok Proofs/ReasmC10.required_vos: Proofs/ReasmC10.v Model/Reassembler.vos Proofs/ReasmInv.vos Proofs/ReasmC01.vos
Proofs/ReasmInv.vo Proofs/ReasmInv.glob Proofs/ReasmInv.v.beautified Proofs/ReasmInv.required_vo: Proofs/ReasmInv.v Model/Reassembler.vo
Proofs/ReasmInv.vio: Proofs/ReasmInv.v Model/Reassembler.vio
Proofs/ReasmInv.vos Proofs/ReasmInv.vok Proofs/ReasmInv.required_vos: Proofs/ReasmInv.v Model/Reassembler.vos
Proofs/SortAppend.vo Proofs/SortAppend.glob Proofs/SortAppend.v.beautified Proofs/SortAppend.required_vo: Proofs/SortAppend.v Model/Reassembler.vo Proofs/ReasmInv.vo Proofs/ReasmC01.vo Proofs/Window.vo
Proofs/SortAppend.vio: Proofs/SortAppend.v Model/Reassembler.vio Proofs/ReasmInv.vio Proofs/ReasmC01.vio Proofs/Window.vio
Proofs/SortAppend.vos Proofs/SortAppend.vok Proofs/SortAppend.required_vos: Proofs/SortAppend.v Model/Reassembler.vos Proofs/ReasmInv.vos Proofs/ReasmC01.vos Proofs/Window.vos
Proofs/TablesLift.vo Proofs/TablesLift.glob Proofs/TablesLift.v.beautified Proofs/TablesLift.required_vo: Proofs/TablesLift.v Base/Bytes.vo Model/Tables.vo
Proofs/TablesLift.vio: Proofs/TablesLift.v Base/Bytes.vio Model/Tables.vio
Proofs/TablesLift.vos Proofs/TablesLift.vok Proofs/TablesLift.required_vos: Proofs/TablesLift.v Base/Bytes.vos Model/Tables.vos
Proofs/Window.vo Proofs/Window.glob Proofs/Window.v.beautified Proofs/Window.required_vo: Proofs/Window.v Model/Reassembler.vo
Proofs/Window.vio: Proofs/Window.v Model/Reassembler.vio
Proofs/Window.vos Proofs/Window.vok Proofs/Window.required_vos: Proofs/Window.v Model/Reassembler.vos
Properties/C20.vo Properties/C20.glob Properties/C20.v.beautified Properties/C20.required_vo: Properties/C20.v Base/Bytes.vo Model/Tables.vo Proofs/TablesLift.vo Inst/MsgTypeFwd.vo Inst/MsgTypeText.vo Inst/TablesOk.vo Inst/NormNames.vo Gen/MsgTypes.vo Gen/Errno.vo Gen/Arch.vo Gen/Syscalls.vo Gen/RuleTables.vo Gen/Norms.vo Gen/EventTypes.vo
Properties/C20.vio: Properties/C20.v Base/Bytes.vio Model/Tables.vio Proofs/TablesLift.vio Inst/MsgTypeFwd.vio Inst/MsgTypeText.vio Inst/TablesOk.vio Inst/NormNames.vio Gen/MsgTypes.vio Gen/Errno.vio Gen/Arch.vio Gen/Syscalls.vio Gen/RuleTables.vio Gen/Norms.vio Gen/EventTypes.vio
Properties/C20.vos Properties/C20.vok Properties/C20.required_vos: Properties/C20.v Base/Bytes.vos Model/Tables.vos Proofs/TablesLift.vos Inst/MsgTypeFwd.vos Inst/MsgTypeText.vos Inst/TablesOk.vos Inst/NormNames.vos Gen/MsgTypes.vos Gen/Errno.vos Gen/Arch.vos Gen/Syscalls.vos Gen/RuleTables.vos Gen/Norms.vos Gen/EventTypes.vos
