(* Spec/Uapi.v — Linux UAPI numbers and layouts written by hand from
   include/uapi/linux/audit.h and netlink.h (the independent oracle of C16, C08,
   C17, C18).  bin/setup cross-checks the constants against
   /usr/include/linux/{audit,netlink}.h when a C compiler is present. *)
From Coq Require Import List Ascii NArith ZArith Bool.
Import ListNotations.
Require Import Mach.
Open Scope N_scope.

Definition UAPI_NLMSG_ERROR : N := 2.
Definition UAPI_NLMSG_DONE : N := 3.
Definition UAPI_NLM_F_REQUEST : N := 1.
Definition UAPI_NLM_F_ACK : N := 4.
Definition UAPI_NLMSG_HDRLEN : N := 16.
Definition UAPI_AUDIT_GET : N := 1000.
Definition UAPI_AUDIT_SET : N := 1001.
Definition UAPI_AUDIT_ADD_RULE : N := 1011.
Definition UAPI_AUDIT_DEL_RULE : N := 1012.
Definition UAPI_AUDIT_LIST_RULES : N := 1013.
Definition UAPI_AUDIT_STATUS_ENABLED : N := 1.
Definition UAPI_AUDIT_STATUS_FAILURE : N := 2.
Definition UAPI_AUDIT_STATUS_PID : N := 4.
Definition UAPI_AUDIT_STATUS_RATE_LIMIT : N := 8.
Definition UAPI_AUDIT_STATUS_BACKLOG_LIMIT : N := 16.
Definition UAPI_AUDIT_STATUS_BACKLOG_WAIT_TIME : N := 32.
Definition UAPI_AUDIT_STATUS_LOST : N := 64.
Definition UAPI_AUDIT_FEATURE_BITMAP_BACKLOG_LIMIT : N := 1.
Definition UAPI_AUDIT_FEATURE_BITMAP_BACKLOG_WAIT_TIME : N := 2.
Definition UAPI_AUDIT_FEATURE_BITMAP_EXECUTABLE_PATH : N := 4.
Definition UAPI_AUDIT_FEATURE_BITMAP_EXCLUDE_EXTEND : N := 8.
Definition UAPI_AUDIT_FEATURE_BITMAP_SESSIONID_FILTER : N := 16.
Definition UAPI_AUDIT_FEATURE_BITMAP_LOST_RESET : N := 32.
Definition UAPI_AUDIT_FAIL_SILENT : N := 0.
Definition UAPI_AUDIT_FAIL_PRINTK : N := 1.
Definition UAPI_AUDIT_FAIL_PANIC : N := 2.

(* struct audit_status: eleven __u32 in this order *)
Record ustatus := { u_mask : N; u_enabled : N; u_failure : N; u_pid : N; u_rate_limit : N; u_backlog_limit : N;
                    u_lost : N; u_backlog : N; u_feature_bitmap : N; u_backlog_wait_time : N; u_backlog_wait_time_actual : N }.
Definition ustatus_words (u : ustatus) : list N :=
  [u_mask u; u_enabled u; u_failure u; u_pid u; u_rate_limit u; u_backlog_limit u; u_lost u; u_backlog u;
   u_feature_bitmap u; u_backlog_wait_time u; u_backlog_wait_time_actual u].
Definition ustatus_bytes (u : ustatus) : str := words_to_bytes (ustatus_words u).
Definition UAPI_SIZEOF_AUDIT_STATUS : N := 44.
Definition UAPI_MIN_AUDIT_STATUS : N := 32.     (* 2.6.32: up to and including backlog *)
Definition uzero : ustatus := {| u_mask := 0; u_enabled := 0; u_failure := 0; u_pid := 0; u_rate_limit := 0; u_backlog_limit := 0;
  u_lost := 0; u_backlog := 0; u_feature_bitmap := 0; u_backlog_wait_time := 0; u_backlog_wait_time_actual := 0 |}.

(* reading a reply buffer the way the kernel's layout says: word i at byte 4i,
   words the buffer does not reach are zero, bytes past 44 are ignored *)
Definition byte_at (buf : str) (i : nat) : N := match nth_error buf i with Some c => N_of_ascii c | None => 0 end.
Definition uword_at (buf : str) (i : nat) : N :=
  byte_at buf (4*i) + 256 * byte_at buf (4*i+1) + 65536 * byte_at buf (4*i+2) + 16777216 * byte_at buf (4*i+3).
Definition uapi_read_status (buf : str) : list N := map (uword_at buf) (seq 0 11).
