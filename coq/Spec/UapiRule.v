(* Spec/UapiRule.v — struct audit_rule_data and the rule constants of
   include/uapi/linux/audit.h, written out by hand (name of the auditctl field,
   the AUDIT_ constant it stands for, its number), as the independent oracle of
   C06/C07/C13. *)
From Coq Require Import List Ascii String Arith NArith Bool.
Import ListNotations.
Require Import Mach Uapi.
Local Open Scope string_scope.
Open Scope N_scope.

Definition uapi_fields : list (string * N) := [
  ("a0", 200)  (* AUDIT_ARG0 *);
  ("a1", 201)  (* AUDIT_ARG1 *);
  ("a2", 202)  (* AUDIT_ARG2 *);
  ("a3", 203)  (* AUDIT_ARG3 *);
  ("arch", 11)  (* AUDIT_ARCH *);
  ("auid", 9)  (* AUDIT_LOGINUID *);
  ("devmajor", 100)  (* AUDIT_DEVMAJOR *);
  ("devminor", 101)  (* AUDIT_DEVMINOR *);
  ("dir", 107)  (* AUDIT_DIR *);
  ("egid", 6)  (* AUDIT_EGID *);
  ("euid", 2)  (* AUDIT_EUID *);
  ("exe", 112)  (* AUDIT_EXE *);
  ("exit", 103)  (* AUDIT_EXIT *);
  ("filetype", 108)  (* AUDIT_FILETYPE *);
  ("fsgid", 8)  (* AUDIT_FSGID *);
  ("fsuid", 4)  (* AUDIT_FSUID *);
  ("gid", 5)  (* AUDIT_GID *);
  ("inode", 102)  (* AUDIT_INODE *);
  ("key", 210)  (* AUDIT_FILTERKEY *);
  ("msgtype", 12)  (* AUDIT_MSGTYPE *);
  ("obj_gid", 110)  (* AUDIT_OBJ_GID *);
  ("obj_lev_high", 23)  (* AUDIT_OBJ_LEV_HIGH *);
  ("obj_lev_low", 22)  (* AUDIT_OBJ_LEV_LOW *);
  ("obj_role", 20)  (* AUDIT_OBJ_ROLE *);
  ("obj_type", 21)  (* AUDIT_OBJ_TYPE *);
  ("obj_uid", 109)  (* AUDIT_OBJ_UID *);
  ("obj_user", 19)  (* AUDIT_OBJ_USER *);
  ("path", 105)  (* AUDIT_WATCH *);
  ("perm", 106)  (* AUDIT_PERM *);
  ("pers", 10)  (* AUDIT_PERS *);
  ("pid", 0)  (* AUDIT_PID *);
  ("ppid", 18)  (* AUDIT_PPID *);
  ("saddr_fam", 113)  (* AUDIT_SADDR_FAM *);
  ("sgid", 7)  (* AUDIT_SGID *);
  ("subj_clr", 17)  (* AUDIT_SUBJ_CLR *);
  ("subj_role", 14)  (* AUDIT_SUBJ_ROLE *);
  ("subj_sen", 16)  (* AUDIT_SUBJ_SEN *);
  ("subj_type", 15)  (* AUDIT_SUBJ_TYPE *);
  ("subj_user", 13)  (* AUDIT_SUBJ_USER *);
  ("success", 104)  (* AUDIT_SUCCESS *);
  ("suid", 3)  (* AUDIT_SUID *);
  ("uid", 1)  (* AUDIT_UID *)
].
Definition uapi_operators : list (string * N) := [
  ("=", 1073741824)  (* AUDIT_EQUAL *);
  ("!=", 805306368)  (* AUDIT_NOT_EQUAL *);
  ("<", 268435456)  (* AUDIT_LESS_THAN *);
  ("<=", 1342177280)  (* AUDIT_LESS_THAN_OR_EQUAL *);
  (">", 536870912)  (* AUDIT_GREATER_THAN *);
  (">=", 1610612736)  (* AUDIT_GREATER_THAN_OR_EQUAL *);
  ("&", 134217728)  (* AUDIT_BIT_MASK *);
  ("&=", 1207959552)  (* AUDIT_BIT_TEST *)
].
(* lists (AUDIT_FILTER_USER/TASK/ENTRY/EXIT/EXCLUDE/FS) and actions (AUDIT_NEVER/POSSIBLE/ALWAYS) *)
Definition uapi_lists : list (string * N) := [("user", 0); ("task", 1); ("entry", 2); ("exit", 4); ("exclude", 5); ("filesystem", 6)].
Definition uapi_actions : list (string * N) := [("never", 0); ("possible", 1); ("always", 2)].
Definition UAPI_AUDIT_MAX_FIELDS : N := 64.
Definition UAPI_AUDIT_BITMASK_SIZE : N := 64.
Definition UAPI_AUDIT_FILTERKEY : N := 210.
Definition UAPI_AUDIT_FIELD_COMPARE : N := 111.
Definition UAPI_AUDIT_EQUAL : N := 1073741824.
Definition UAPI_AUDIT_PERM_EXEC : N := 1.
Definition UAPI_AUDIT_PERM_WRITE : N := 2.
Definition UAPI_AUDIT_PERM_READ : N := 4.
Definition UAPI_AUDIT_PERM_ATTR : N := 8.
(* fields whose value is the length of a string carried in buf (audit_data_to_entry):
   SUBJ_USER..SUBJ_CLR, OBJ_USER..OBJ_LEV_HIGH, WATCH, DIR, EXE, FILTERKEY *)
Definition uapi_string_fields : list N := [13; 14; 15; 16; 17; 19; 20; 21; 22; 23; 105; 107; 112; 210].

(* struct audit_rule_data: flags@0 action@4 field_count@8 mask[64]@12 fields[64]@268
   values[64]@524 fieldflags[64]@780 buflen@1036 buf@1040 *)
Record urule := { ur_flags : N; ur_action : N; ur_field_count : N; ur_mask : list N; ur_fields : list N; ur_values : list N;
                  ur_fieldflags : list N; ur_buflen : N; ur_buf : str }.
Definition words_at (b : str) (off n : nat) : list N := map (fun i => uword_at (skipn off b) i) (seq 0 n).
Definition uapi_rule_decode (b : str) : option urule :=
  if (List.length b <? 1040)%nat then None
  else Some {| ur_flags := uword_at b 0; ur_action := uword_at b 1; ur_field_count := uword_at b 2;
               ur_mask := words_at b 12 64; ur_fields := words_at b 268 64; ur_values := words_at b 524 64;
               ur_fieldflags := words_at b 780 64; ur_buflen := uword_at b 259; ur_buf := skipn 1040 b |}.

(* AUDIT_COMPARE_*: unordered pair of field numbers -> comparison code *)
Definition uapi_compares : list (N * N * N) :=
  [(1,109,1); (5,110,2); (2,109,3); (6,110,4); (9,109,5); (3,109,6); (7,110,7); (4,109,8); (8,110,9);
   (1,9,10); (1,2,11); (1,4,12); (1,3,13); (9,4,14); (9,3,15); (9,2,16); (2,3,17); (2,4,18); (3,4,19);
   (5,6,20); (5,8,21); (5,7,22); (6,8,23); (6,7,24); (7,8,25)].
Definition uapi_compare (a b : N) : option N :=
  match find (fun t => let '(x, y, _) := t in ((x =? a) && (y =? b)) || ((x =? b) && (y =? a))) uapi_compares with
  | Some (_, _, c) => Some c | None => None end.
