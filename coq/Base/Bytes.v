(* Base/Bytes.v — byte strings (list ascii), Coq string literals as byte strings,
   ASCII case mapping as Go's strings.ToUpper/ToLower perform it on the inputs the
   library feeds them, association lists, and a binary enumeration of [0,n). *)
From Coq Require Import List Ascii String NArith ZArith Bool Lia.
Require Export Dec.
Import ListNotations.
Open Scope N_scope.

Definition s2l (s : string) : str := list_ascii_of_string s.
Coercion s2l : string >-> str.

Definition ascii_eqb (a b : ascii) : bool := Ascii.eqb a b.
Fixpoint str_eqb (a b : str) : bool :=
  match a, b with
  | [], [] => true
  | x :: a', y :: b' => Ascii.eqb x y && str_eqb a' b'
  | _, _ => false
  end.
Lemma str_eqb_eq a b : str_eqb a b = true <-> a = b.
Proof.
  revert b. induction a as [|x a IH]; destruct b as [|y b]; cbn; try (split; congruence).
  rewrite andb_true_iff, Ascii.eqb_eq, IH. split; [intros [-> ->]; auto | intros H; inversion H; auto].
Qed.
Lemma str_eqb_refl a : str_eqb a a = true.
Proof. apply str_eqb_eq; auto. Qed.

Definition byte (n : N) : ascii := ascii_of_N n.
Definition code (c : ascii) : N := N_of_ascii c.

(* ASCII case mapping *)
Definition upper_ascii (c : ascii) : ascii :=
  let n := code c in if (97 <=? n) && (n <=? 122) then byte (n - 32) else c.
Definition lower_ascii (c : ascii) : ascii :=
  let n := code c in if (65 <=? n) && (n <=? 90) then byte (n + 32) else c.
(* strings.ToUpper: ASCII letters, plus the only two non-ASCII runes whose upper
   case is ASCII: U+017F (C5 BF) -> S and U+0131 (C4 B1) -> I.  All other bytes are
   kept (Go re-encodes other runes to non-ASCII bytes, which no caller of this
   model distinguishes: the result is only compared with ASCII table names and
   scanned for the ASCII bytes '[' and ']'). *)
Fixpoint to_upper (s : str) : str :=
  match s with
  | [] => []
  | c :: r =>
      match r with
      | d :: r' =>
          if (code c =? 197) && (code d =? 191) then byte 83 :: to_upper r'
          else if (code c =? 196) && (code d =? 177) then byte 73 :: to_upper r'
          else upper_ascii c :: to_upper r
      | [] => [upper_ascii c]
      end
  end.
Definition to_lower_ascii (s : str) : str := map lower_ascii s.

(* association lists *)
Fixpoint alookup {K V} (eqb : K -> K -> bool) (k : K) (l : list (K * V)) : option V :=
  match l with [] => None | (k', v) :: r => if eqb k k' then Some v else alookup eqb k r end.
Definition lookupN {V} := @alookup N V N.eqb.
Definition lookupZ {V} := @alookup Z V Z.eqb.
(* compare a byte string with a Coq string without converting (no allocation under vm_compute) *)
Fixpoint str_eqb_s (a : str) (b : string) : bool :=
  match a, b with
  | [], EmptyString => true
  | x :: a', String y b' => Ascii.eqb x y && str_eqb_s a' b'
  | _, _ => false
  end.
Lemma str_eqb_s_eq a b : str_eqb_s a b = true <-> a = s2l b.
Proof.
  revert b. induction a as [|x a IH]; destruct b as [|y b]; cbn; try (split; congruence).
  rewrite andb_true_iff, Ascii.eqb_eq, IH. split; [intros [-> ->]; auto | intros H; inversion H; auto].
Qed.
Fixpoint lookupS {V} (k : str) (l : list (string * V)) : option V :=
  match l with [] => None | (k', v) :: r => if str_eqb_s k k' then Some v else lookupS k r end.
Lemma lookupS_In {V} k (l : list (string * V)) v : lookupS k l = Some v -> exists k', In (k', v) l /\ s2l k' = k.
Proof.
  induction l as [|[k' v'] r IH]; cbn; [discriminate|]. destruct (str_eqb_s k k') eqn:E.
  - intros H; inversion H; subst. apply str_eqb_s_eq in E. exists k'; auto.
  - intros H. destruct (IH H) as (k0 & Hin & Hk). exists k0; auto.
Qed.

Lemma alookup_In {K V} (eqb : K -> K -> bool) (Heq : forall a b, eqb a b = true -> a = b) k (l : list (K*V)) v :
  alookup eqb k l = Some v -> In (k, v) l.
Proof.
  induction l as [|[k' v'] r IH]; cbn; [discriminate|]. destruct (eqb k k') eqn:E.
  - intros H; inversion H; subst. apply Heq in E. subst. auto.
  - auto.
Qed.

Fixpoint index_byte (c : ascii) (s : str) : option nat :=
  match s with [] => None | x :: r => if Ascii.eqb x c then Some O else option_map S (index_byte c r) end.

(* [0, n) as a list of N, built by binary recursion on n (a nat-indexed seq of
   65536 elements costs 80 s under vm_compute; this costs 1.5 s). *)
Definition upto (n : N) : list N := N.peano_rect (fun _ => list N) [] (fun k acc => k :: acc) n.
Lemma upto_succ n : upto (N.succ n) = n :: upto n.
Proof. unfold upto. rewrite N.peano_rect_succ. reflexivity. Qed.
Lemma In_upto n : forall k, In k (upto n) <-> k < n.
Proof.
  induction n using N.peano_ind; intros k.
  - cbn. lia.
  - rewrite upto_succ. cbn. rewrite IHn. lia.
Qed.
Lemma forallb_upto (f : N -> bool) n : forallb f (upto n) = true -> forall k, k < n -> f k = true.
Proof. intros H k Hk. rewrite forallb_forall in H. apply H. apply In_upto; auto. Qed.

Fixpoint nodupb {A} (eqb : A -> A -> bool) (l : list A) : bool :=
  match l with [] => true | x :: r => negb (existsb (eqb x) r) && nodupb eqb r end.
Lemma nodupb_NoDup {A} (eqb : A -> A -> bool) (Hrefl : forall a, eqb a a = true) (l : list A) :
  nodupb eqb l = true -> NoDup l.
Proof.
  induction l as [|x r IH]; cbn; [constructor|]. rewrite andb_true_iff, negb_true_iff. intros [H1 H2].
  constructor; auto. intros Hin. assert (existsb (eqb x) r = true) by (apply existsb_exists; exists x; auto). congruence.
Qed.

(* Close a goal [l = r] whose left side evaluates to [r] with a single VM
   evaluation (at Qed time) instead of one in the tactic and one at Qed. *)
Ltac by_vm := match goal with |- ?l = ?r => vm_cast_no_check (@eq_refl _ r) end.

(* Byte strings shipped by the harness: lower-case hex in a Coq string literal. *)
Definition hexval (c : ascii) : N :=
  let n := N_of_ascii c in
  if (48 <=? n) && (n <=? 57) then n - 48 else if (97 <=? n) && (n <=? 102) then n - 87 else 0.
Fixpoint hx (s : string) : str :=
  match s with
  | String a (String b r) => ascii_of_N (16 * hexval a + hexval b) :: hx r
  | _ => []
  end.
