(* Base/Dec.v — decimal printing and parsing of unbounded naturals over byte strings. *)
From Coq Require Import List Ascii NArith ZArith Bool Lia ZifyBool ZifyN.
Import ListNotations.
Open Scope N_scope.
Ltac Zify.zify_post_hook ::= Z.div_mod_to_equations.

Definition str := list ascii.
Definition digit_char (d : N) : ascii := ascii_of_N (48 + d).
Definition is_digit (c : ascii) : bool := let n := N_of_ascii c in (48 <=? n) && (n <=? 57).
Definition digit_val (c : ascii) : N := N_of_ascii c - 48.

(* print: fuel-driven, most significant digit first; fuel = number of binary digits suffices *)
Fixpoint dec_aux (fuel : nat) (n : N) (acc : str) : str :=
  match fuel with
  | O => acc
  | S f => let acc' := digit_char (n mod 10) :: acc in
           if n / 10 =? 0 then acc' else dec_aux f (n / 10) acc'
  end.
Definition dec (n : N) : str := dec_aux (S (N.to_nat (N.log2 n))) n [].

(* parse: left fold; None on empty or non-digit *)
Fixpoint parse_aux (s : str) (acc : N) : option N :=
  match s with
  | [] => Some acc
  | c :: r => if is_digit c then parse_aux r (acc * 10 + digit_val c) else None
  end.
Definition parse_dec (s : str) : option N := match s with [] => None | _ => parse_aux s 0 end.

Lemma N_of_digit_char d : d < 10 -> N_of_ascii (digit_char d) = 48 + d.
Proof. intros H. unfold digit_char. apply N_ascii_embedding. lia. Qed.
Lemma is_digit_digit_char d : d < 10 -> is_digit (digit_char d) = true.
Proof. intros H. unfold is_digit. rewrite N_of_digit_char by auto. lia. Qed.
Lemma digit_val_digit_char d : d < 10 -> digit_val (digit_char d) = d.
Proof. intros H. unfold digit_val. rewrite N_of_digit_char by auto. lia. Qed.

Lemma parse_aux_app s1 s2 acc : parse_aux (s1 ++ s2) acc =
  match parse_aux s1 acc with Some a => parse_aux s2 a | None => None end.
Proof. revert acc. induction s1 as [|c r IH]; intros acc; cbn; auto. destruct (is_digit c); auto. Qed.

(* dec_aux is (digits of n) ++ acc; evaluate the digit string. *)
Fixpoint digits (fuel : nat) (n : N) : str :=
  match fuel with
  | O => []
  | S f => if n / 10 =? 0 then [digit_char (n mod 10)] else digits f (n / 10) ++ [digit_char (n mod 10)]
  end.
Lemma dec_aux_digits : forall fuel n acc, dec_aux fuel n acc = digits fuel n ++ acc.
Proof.
  induction fuel as [|f IH]; intros n acc; cbn; auto.
  destruct (n / 10 =? 0); auto. rewrite IH. rewrite <- app_assoc. auto.
Qed.
Lemma parse_digits : forall fuel n a0, n < 2 ^ N.of_nat fuel -> parse_aux (digits fuel n) a0 = Some (a0 * 10 ^ N.of_nat (length (digits fuel n)) + n).
Proof.
  induction fuel as [|f IH]; intros n a0 H.
  - cbn in H. assert (n = 0) by lia. subst. cbn. f_equal. lia.
  - cbn [digits]. destruct (n / 10 =? 0) eqn:E.
    + cbn. rewrite is_digit_digit_char, digit_val_digit_char by (apply N.mod_lt; lia). f_equal.
      assert (n / 10 = 0) by lia. assert (n mod 10 = n) by (apply N.mod_small; lia). lia.
    + rewrite parse_aux_app. rewrite IH.
      * cbn. rewrite is_digit_digit_char, digit_val_digit_char by (apply N.mod_lt; lia). f_equal.
        rewrite app_length. cbn [length]. rewrite Nat2N.inj_add. change (N.of_nat 1) with 1. rewrite N.pow_add_r. change (10^1) with 10.
        pose proof (N.div_mod n 10). lia.
      * rewrite Nat2N.inj_succ, N.pow_succ_r' in H. apply N.div_lt_upper_bound; lia.
Qed.

Lemma digits_nonempty fuel n : fuel <> O -> digits fuel n <> [].
Proof. destruct fuel; [congruence|]. intros _. cbn. destruct (n / 10 =? 0). discriminate. intros C. apply app_eq_nil in C. destruct C; discriminate. Qed.

Lemma log2_bound n : n < 2 ^ N.of_nat (S (N.to_nat (N.log2 n))).
Proof.
  rewrite Nat2N.inj_succ, N2Nat.id. destruct (N.eq_dec n 0) as [->|Hn]. cbn. lia.
  apply N.log2_spec. lia.
Qed.

Theorem parse_dec_dec n : parse_dec (dec n) = Some n.
Proof.
  unfold dec. rewrite dec_aux_digits, app_nil_r. unfold parse_dec.
  destruct (digits _ n) eqn:E. exfalso. revert E. apply digits_nonempty. discriminate.
  rewrite <- E. rewrite parse_digits by apply log2_bound. f_equal.
Qed.

Lemma digits_all_digits fuel n : forallb is_digit (digits fuel n) = true.
Proof.
  revert n. induction fuel as [|f IH]; intros n; cbn; auto.
  destruct (n / 10 =? 0); cbn. rewrite is_digit_digit_char by (apply N.mod_lt; lia). auto.
  rewrite forallb_app, IH. cbn. rewrite is_digit_digit_char by (apply N.mod_lt; lia). auto.
Qed.
Theorem dec_all_digits n : forallb is_digit (dec n) = true.
Proof. unfold dec. rewrite dec_aux_digits, app_nil_r. apply digits_all_digits. Qed.

(* no leading zero unless the number is 0: needed for Go's base-0 parsing ("0" prefix = octal) *)
Lemma digits_head fuel n : n < 2 ^ N.of_nat fuel -> n <> 0 -> exists c r, digits fuel n = c :: r /\ c <> digit_char 0.
Proof.
  revert n. induction fuel as [|f IH]; intros n H Hn. cbn in H. lia.
  cbn [digits]. destruct (n / 10 =? 0) eqn:E.
  - exists (digit_char (n mod 10)), []. split; auto. intros C.
    assert (N_of_ascii (digit_char (n mod 10)) = N_of_ascii (digit_char 0)) by congruence.
    rewrite !N_of_digit_char in H0 by (try apply N.mod_lt; lia). assert (n / 10 = 0) by lia. assert (n mod 10 = n) by (apply N.mod_small; lia). lia.
  - destruct (IH (n / 10)) as (c & r & Hd & Hc).
    + rewrite Nat2N.inj_succ, N.pow_succ_r' in H. apply N.div_lt_upper_bound; lia.
    + lia.
    + exists c, (r ++ [digit_char (n mod 10)]). rewrite Hd. split; auto.
Qed.
Theorem dec_no_leading_zero n : n <> 0 -> exists c r, dec n = c :: r /\ c <> digit_char 0.
Proof. intros H. unfold dec. rewrite dec_aux_digits, app_nil_r. apply digits_head; auto. apply log2_bound. Qed.




