(* Base/Strconv.v (prototype) — Go's strconv.ParseUint / ParseInt as used by the rule package, and the print/parse lemma L1. *)
From Coq Require Import List Ascii String NArith ZArith Bool Lia ZifyBool ZifyN ZifyNat.
Import ListNotations.
Require Import Dec.
Open Scope N_scope.
Local Arguments N.mul : simpl never.
Local Arguments N.add : simpl never.

Inductive numerr := ErrSyntax | ErrRange.
Inductive pres := POk (n : N) | PErr (e : numerr).

Definition code (c : ascii) : N := N_of_ascii c.
Definition lower (c : N) : N := N.lor c 32.                       (* strconv's lower(): c | ('x' - 'X') *)
Definition ch (n : N) : ascii := ascii_of_N n.

(* digit value of a byte in any base up to 36; None = not a digit character *)
Definition digit_of (c : ascii) : option N :=
  let n := code c in
  if (48 <=? n) && (n <=? 57) then Some (n - 48)
  else let l := lower n in if (97 <=? l) && (l <=? 122) then Some (l - 97 + 10) else None.

(* the main loop of ParseUint: range error is reported at the first overflowing digit, before later syntax errors *)
Fixpoint uloop (base maxv : N) (base0 : bool) (s : str) (acc : N) (us : bool) : pres * bool :=
  match s with
  | [] => (POk acc, us)
  | c :: r =>
      if (code c =? 95) && base0 then uloop base maxv base0 r acc true          (* '_' *)
      else match digit_of c with
           | None => (PErr ErrSyntax, us)
           | Some d => if base <=? d then (PErr ErrSyntax, us)
                       else if maxv <? acc * base + d then (PErr ErrRange, us)
                       else uloop base maxv base0 r (acc * base + d) us
           end
  end.

(* underscoreOK *)
Inductive saw := SBegin | SDigit | SUnder | SOther.
Fixpoint us_scan (hex : bool) (s : str) (st : saw) : bool :=
  match s with
  | [] => match st with SUnder => false | _ => true end
  | c :: r =>
      let n := code c in
      if ((48 <=? n) && (n <=? 57)) || (hex && (97 <=? lower n) && (lower n <=? 102)) then us_scan hex r SDigit
      else if n =? 95 then match st with SDigit => us_scan hex r SUnder | _ => false end
      else match st with SUnder => false | _ => us_scan hex r SOther end
  end.
Definition underscore_ok (s : str) : bool :=
  let s1 := match s with c :: r => if (code c =? 45) || (code c =? 43) then r else s | [] => s end in
  match s1 with
  | z :: p :: r => if (code z =? 48) && ((lower (code p) =? 98) || (lower (code p) =? 111) || (lower (code p) =? 120))
                   then us_scan (lower (code p) =? 120) r SDigit else us_scan false s1 SBegin
  | _ => us_scan false s1 SBegin
  end.

Definition parse_uint (s : str) (base : N) (bits : N) : pres :=
  match s with
  | [] => PErr ErrSyntax
  | c0 :: r0 =>
      let maxv := 2 ^ bits - 1 in
      let '(b, body) :=
        if base =? 0 then
          if code c0 =? 48 then
            match r0 with
            | p :: (_ :: _) as r1 =>
                let l := lower (code p) in
                if l =? 98 then (2, r1) else if l =? 111 then (8, r1) else if l =? 120 then (16, r1) else (8, r0)
            | _ => (8, r0)
            end
          else (10, s)
        else (base, s) in
      match uloop b maxv (base =? 0) body 0 false with
      | (PErr e, _) => PErr e
      | (POk n, us) => if us && negb (underscore_ok s) then PErr ErrSyntax else POk n
      end
  end.

(* parseNum of rule.go: leading '-' -> ParseInt(…, 0, 32) reinterpreted as uint32, else ParseUint(…, 0, 32) *)
Definition parse_int32_as_u32 (s : str) : pres :=          (* s begins with '-' *)
  match s with
  | _ :: r => match parse_uint r 0 32 with
              | POk n => if 2 ^ 31 <? n then PErr ErrRange else POk ((2 ^ 32 - n) mod 2 ^ 32)
              | PErr ErrRange => PErr ErrRange
              | PErr ErrSyntax => PErr ErrSyntax
              end
  | [] => PErr ErrSyntax
  end.
Definition parse_num (s : str) : pres :=
  match s with c :: _ => if code c =? 45 then parse_int32_as_u32 s else parse_uint s 0 32 | [] => parse_uint s 0 32 end.

(* ---------- L1 for the default numeric fields: strconv.Itoa(int(value)) re-parses to the value ---------- *)
Lemma digit_of_is_digit c : is_digit c = true -> digit_of c = Some (digit_val c).
Proof. unfold is_digit, digit_of, digit_val, code. intros H. rewrite H. auto. Qed.
Lemma is_digit_not_underscore c : is_digit c = true -> (code c =? 95) = false.
Proof. unfold is_digit, code. lia. Qed.
Lemma digit_val_lt10 c : is_digit c = true -> digit_val c < 10.
Proof. unfold is_digit, digit_val. lia. Qed.

Lemma parse_aux_mono : forall s acc n, parse_aux s acc = Some n -> acc <= n.
Proof.
  induction s as [|c r IH]; intros acc n H; cbn in H. inversion H; lia.
  destruct (is_digit c); try discriminate. apply IH in H. lia.
Qed.

Lemma uloop_digits maxv b0 : forall s acc n, forallb is_digit s = true -> parse_aux s acc = Some n -> n <= maxv ->
  uloop 10 maxv b0 s acc false = (POk n, false).
Proof.
  induction s as [|c r IH]; intros acc n Hd Hp Hm; cbn in Hp |- *. inversion Hp; auto.
  cbn in Hd. apply andb_prop in Hd. destruct Hd as [Hc Hr]. rewrite Hc in Hp.
  rewrite (is_digit_not_underscore c Hc). cbn [andb]. rewrite (digit_of_is_digit c Hc).
  pose proof (digit_val_lt10 c Hc). replace (10 <=? digit_val c) with false by lia.
  pose proof (parse_aux_mono _ _ _ Hp). replace (maxv <? acc * 10 + digit_val c) with false by lia.
  apply IH; auto.
Qed.

Theorem parse_num_dec v : v < 2 ^ 32 -> parse_num (dec v) = POk v.
Proof.
  intros Hv. pose proof (parse_dec_dec v) as Hp. pose proof (dec_all_digits v) as Hd.
  destruct (N.eq_dec v 0) as [->|Hnz].
  - vm_compute. reflexivity.
  - destruct (dec_no_leading_zero v Hnz) as (c & r & E & Hc). rewrite E in *.
    cbn in Hd. apply andb_prop in Hd. destruct Hd as [Hc1 Hr].
    assert (Hc45: (code c =? 45) = false) by (unfold is_digit, code in *; lia).
    assert (Hc48: (code c =? 48) = false).
    { apply N.eqb_neq. intros C. apply Hc. unfold digit_char. cbn. rewrite <- (ascii_N_embedding c). unfold code in C. rewrite C. reflexivity. }
    unfold parse_num. rewrite Hc45. unfold parse_uint. cbn [N.eqb]. rewrite Hc48.
    unfold parse_dec in Hp.
    rewrite (uloop_digits (2^32-1) true (c :: r) 0 v); auto.
    + cbn. rewrite Hc1. auto.
    + change (2^32) with 4294967296 in *. lia.
Qed.
Print Assumptions parse_num_dec.
Eval vm_compute in map (fun x => parse_num (list_ascii_of_string x))
  ["0"; "010"; "0x10"; "0X1f"; "0b101"; "0o17"; "1_000"; "_1"; "1_"; "0x_1"; "0_1"; "4294967296"; "-1"; "-2147483648"; "-2147483649"; "99999999999999999999x"; "0x"; "+5"; ""; "12a"]%string.

(* ---------- strconv.ParseInt (sign, ParseUint on the rest, cutoff at 2^(bits-1)) ---------- *)
Inductive zres := ZOk (z : Z) | ZErr (e : numerr).
Definition parse_int (s : str) (base bits : N) : zres :=
  match s with
  | [] => ZErr ErrSyntax
  | c :: r =>
      let '(neg, body) := if code c =? 43 then (false, r) else if code c =? 45 then (true, r) else (false, s) in
      match parse_uint body base bits with
      | PErr e => ZErr e
      | POk n => if negb neg && (2 ^ (bits - 1) <=? n) then ZErr ErrRange
                 else if neg && (2 ^ (bits - 1) <? n) then ZErr ErrRange
                 else ZOk (if neg then - Z.of_N n else Z.of_N n)%Z
      end
  end.
