(* Base/Mach.v — little-endian 32-bit words over byte strings (native order on the checked platform). *)
From Coq Require Import List Ascii NArith ZArith Bool Lia ZifyBool ZifyN.
Import ListNotations.
Open Scope N_scope.
Local Arguments N.mul : simpl never.
Local Arguments N.add : simpl never.

Definition str := list ascii.
Definition byte_of (n : N) : ascii := ascii_of_N (n mod 256).
Definition le32 (w : N) : str := [byte_of w; byte_of (w / 256); byte_of (w / 256 / 256); byte_of (w / 256 / 256 / 256)].
(* checked read of one word at the head; None = the Go slice expression would panic *)
Definition rd32 (s : str) : option (N * str) :=
  match s with
  | a :: b :: c :: d :: r => Some (N_of_ascii a + 256 * N_of_ascii b + 65536 * N_of_ascii c + 16777216 * N_of_ascii d, r)
  | _ => None
  end.
Definition words_to_bytes (ws : list N) : str := flat_map le32 ws.
Fixpoint bytes_to_words (n : nat) (s : str) : option (list N * str) :=
  match n with
  | O => Some ([], s)
  | S k => match rd32 s with
           | None => None
           | Some (w, r) => match bytes_to_words k r with None => None | Some (ws, r') => Some (w :: ws, r') end
           end
  end.

Lemma N_of_byte_of n : N_of_ascii (byte_of n) = n mod 256.
Proof. unfold byte_of. apply N_ascii_embedding. apply N.mod_lt. lia. Qed.

Lemma rd32_le32 w r : w < 2^32 -> rd32 (le32 w ++ r) = Some (w, r).
Proof.
  intros H. change (2^32) with 4294967296 in H. unfold le32. cbn [app rd32]. rewrite !N_of_byte_of. f_equal. f_equal.
  assert (H3: w / 256 / 256 / 256 < 256) by (repeat apply N.div_lt_upper_bound; lia).
  rewrite (N.mod_small (w / 256 / 256 / 256)) by auto.
  pose proof (N.div_mod w 256 ltac:(lia)) as E0. pose proof (N.div_mod (w / 256) 256 ltac:(lia)) as E1. pose proof (N.div_mod (w / 256 / 256) 256 ltac:(lia)) as E2.
  set (q1 := w / 256) in *. set (q2 := q1 / 256) in *. set (q3 := q2 / 256) in *.
  set (r0 := w mod 256) in *. set (r1 := q1 mod 256) in *. set (r2 := q2 mod 256) in *. clearbody q1 q2 q3 r0 r1 r2. lia.
Qed.
Lemma rd32_bound s w r : rd32 s = Some (w, r) -> w < 2^32 /\ s = le32 w ++ r.
Proof.
  destruct s as [|a [|b [|c [|d r']]]]; cbn [rd32]; try discriminate. intros H. injection H as Hw Hr. subst w r'.
  pose proof (N_ascii_bounded a). pose proof (N_ascii_bounded b). pose proof (N_ascii_bounded c). pose proof (N_ascii_bounded d).
  change (2^32) with 4294967296. split. lia.
  set (w := N_of_ascii a + 256 * N_of_ascii b + 65536 * N_of_ascii c + 16777216 * N_of_ascii d).
  assert (E0: w mod 256 = N_of_ascii a /\ w / 256 = N_of_ascii b + 256 * N_of_ascii c + 65536 * N_of_ascii d).
  { split; [symmetry; apply N.mod_unique with (N_of_ascii b + 256 * N_of_ascii c + 65536 * N_of_ascii d) | symmetry; apply N.div_unique with (N_of_ascii a)]; unfold w; lia. }
  destruct E0 as [E0 D0].
  assert (E1: (w / 256) mod 256 = N_of_ascii b /\ w / 256 / 256 = N_of_ascii c + 256 * N_of_ascii d).
  { rewrite D0. split; [symmetry; apply N.mod_unique with (N_of_ascii c + 256 * N_of_ascii d) | symmetry; apply N.div_unique with (N_of_ascii b)]; lia. }
  destruct E1 as [E1 D1].
  assert (E2: (w / 256 / 256) mod 256 = N_of_ascii c /\ w / 256 / 256 / 256 = N_of_ascii d).
  { rewrite D1. split; [symmetry; apply N.mod_unique with (N_of_ascii d) | symmetry; apply N.div_unique with (N_of_ascii c)]; lia. }
  destruct E2 as [E2 D2].
  unfold le32, byte_of. rewrite E0, E1, E2, D2. rewrite (N.mod_small (N_of_ascii d)) by lia. rewrite !ascii_N_embedding. auto.
Qed.

Theorem bytes_to_words_roundtrip ws r : Forall (fun w => w < 2^32) ws ->
  bytes_to_words (length ws) (words_to_bytes ws ++ r) = Some (ws, r).
Proof.
  induction 1 as [|w ws Hw _ IH]; cbn [length bytes_to_words words_to_bytes flat_map]; auto.
  rewrite <- app_assoc. rewrite rd32_le32 by auto. fold (words_to_bytes ws). rewrite IH. auto.
Qed.
Theorem bytes_to_words_sound : forall n s ws r, bytes_to_words n s = Some (ws, r) ->
  length ws = n /\ Forall (fun w => w < 2^32) ws /\ s = words_to_bytes ws ++ r.
Proof.
  induction n as [|n IH]; intros s ws r H; cbn in H.
  - inversion H; subst. repeat split; auto.
  - destruct (rd32 s) as [[w r1]|] eqn:E; try discriminate.
    destruct (bytes_to_words n r1) as [[ws' r2]|] eqn:E2; try discriminate. inversion H; subst.
    destruct (IH _ _ _ E2) as (Hl & Hf & Hs). destruct (rd32_bound _ _ _ E) as [Hw Hs1].
    split; [cbn; auto|]. split; [constructor; auto|].
    unfold words_to_bytes. cbn [flat_map]. rewrite <- app_assoc. fold (words_to_bytes ws'). rewrite <- Hs. exact Hs1.
Qed.
Theorem bytes_to_words_total n s : (4 * n <= length s)%nat -> bytes_to_words n s <> None.
Proof.
  revert s. induction n as [|n IH]; intros s H; cbn. discriminate.
  destruct s as [|a [|b [|c [|d r]]]]; cbn in H; try lia. cbn [rd32].
  specialize (IH r). destruct (bytes_to_words n r) as [[ws r']|]; [discriminate|]. apply IH. lia.
Qed.
Lemma length_words_to_bytes ws : length (words_to_bytes ws) = (4 * length ws)%nat.
Proof. induction ws as [|w ws IH]; cbn [words_to_bytes flat_map length]; auto. rewrite app_length. fold (words_to_bytes ws). rewrite IH. cbn [le32 length]. lia. Qed.
Print Assumptions bytes_to_words_roundtrip.
Print Assumptions bytes_to_words_sound.
