(* Base/Hex.v — upper-case hex as the kernel writes it (audit_log_n_hex) and as decodeUppercaseHex reads it. *)
From Coq Require Import List Ascii NArith ZArith Bool Lia ZifyBool ZifyN.
Import ListNotations.
Open Scope N_scope.
Ltac Zify.zify_post_hook ::= Z.div_mod_to_equations.

Definition str := list ascii.
Definition hex_char (d : N) : ascii := ascii_of_N (if d <? 10 then 48 + d else 55 + d).   (* '0'..'9','A'..'F' *)
Definition from_hex_char (c : ascii) : option N :=
  let n := N_of_ascii c in
  if (48 <=? n) && (n <=? 57) then Some (n - 48)
  else if (65 <=? n) && (n <=? 70) then Some (n - 65 + 10) else None.

Fixpoint hex_upper (bs : str) : str :=
  match bs with [] => [] | b :: r => let n := N_of_ascii b in hex_char (n / 16) :: hex_char (n mod 16) :: hex_upper r end.

Inductive hexerr := ErrLength | ErrInvalidByte (c : ascii).
(* mirrors decodeUppercaseHex: odd length rejected first, then pairs left to right *)
Fixpoint decode_pairs (s : str) : hexerr + str :=
  match s with
  | [] => inr []
  | [_] => inl ErrLength                         (* unreachable after the parity check *)
  | a :: b :: r =>
      match from_hex_char a with
      | None => inl (ErrInvalidByte a)
      | Some x => match from_hex_char b with
                  | None => inl (ErrInvalidByte b)
                  | Some y => match decode_pairs r with inl e => inl e | inr bs => inr (ascii_of_N (x * 16 + y) :: bs) end
                  end
      end
  end.
Definition decode_upper_hex (s : str) : hexerr + str :=
  if Nat.odd (length s) then inl ErrLength else decode_pairs s.

Lemma from_hex_char_hex_char d : d < 16 -> from_hex_char (hex_char d) = Some d.
Proof.
  intros H. unfold from_hex_char, hex_char. destruct (d <? 10) eqn:E.
  - rewrite N_ascii_embedding by lia. replace ((48 <=? 48 + d) && (48 + d <=? 57)) with true by lia. f_equal. lia.
  - rewrite N_ascii_embedding by lia. replace ((48 <=? 55 + d) && (55 + d <=? 57)) with false by lia.
    replace ((65 <=? 55 + d) && (55 + d <=? 70)) with true by lia. f_equal. lia.
Qed.

Lemma N_of_ascii_bound c : N_of_ascii c < 256. Proof. apply N_ascii_bounded. Qed.

Lemma length_hex_upper bs : length (hex_upper bs) = (2 * length bs)%nat.
Proof. induction bs; cbn; lia. Qed.

Theorem decode_hex_roundtrip bs : decode_upper_hex (hex_upper bs) = inr bs.
Proof.
  unfold decode_upper_hex. rewrite length_hex_upper.
  replace (Nat.odd (2 * length bs)) with false by (symmetry; rewrite Nat.odd_mul; auto).
  induction bs as [|b r IH]; cbn [hex_upper decode_pairs]; auto.
  pose proof (N_of_ascii_bound b).
  rewrite !from_hex_char_hex_char by (try apply N.mod_lt; try apply N.div_lt_upper_bound; lia).
  rewrite IH. f_equal. f_equal. rewrite <- (ascii_N_embedding b) at 3. f_equal.
  pose proof (N.div_mod (N_of_ascii b) 16). lia.
Qed.

(* only [0-9A-F] is accepted: lower-case hex, quotes, anything else is an error, never a wrong value *)
Lemma from_hex_char_inv a x : from_hex_char a = Some x -> x < 16 /\ a = hex_char x.
Proof.
  intros Ea. unfold from_hex_char in Ea. pose proof (N_of_ascii_bound a). rewrite <- (ascii_N_embedding a). unfold hex_char.
  destruct ((48 <=? N_of_ascii a) && (N_of_ascii a <=? 57)) eqn:E1.
  - inversion Ea; subst. split. lia. replace (N_of_ascii a - 48 <? 10) with true by lia. f_equal. lia.
  - destruct ((65 <=? N_of_ascii a) && (N_of_ascii a <=? 70)) eqn:E2; try discriminate. inversion Ea; subst. split. lia.
    replace (N_of_ascii a - 65 + 10 <? 10) with false by lia. f_equal. lia.
Qed.

Lemma decode_pairs_sound : forall n s, (length s <= n)%nat -> forall bs, decode_pairs s = inr bs -> s = hex_upper bs.
Proof.
  induction n as [|n IH]; intros s Hl bs H.
  - destruct s; cbn in *; [inversion H; auto | lia].
  - destruct s as [|a [|b r]]; cbn in H.
    + inversion H; auto.
    + discriminate.
    + destruct (from_hex_char a) as [x|] eqn:Ea; try discriminate.
      destruct (from_hex_char b) as [y|] eqn:Eb; try discriminate.
      destruct (decode_pairs r) as [e|bs'] eqn:Er; try discriminate. inversion H; subst. cbn [hex_upper].
      destruct (from_hex_char_inv _ _ Ea) as [Hx ->]. destruct (from_hex_char_inv _ _ Eb) as [Hy ->].
      rewrite N_ascii_embedding by lia.
      replace ((x * 16 + y) / 16) with x by (apply N.div_unique with y; lia).
      replace ((x * 16 + y) mod 16) with y by (apply N.mod_unique with x; lia).
      f_equal. f_equal. apply IH; auto. cbn in Hl. lia.
Qed.

(* only [0-9A-F] is accepted: lower-case hex, quotes, anything else is an error, never a wrong value *)
Theorem decode_hex_sound s bs : decode_upper_hex s = inr bs -> s = hex_upper bs.
Proof.
  unfold decode_upper_hex. destruct (Nat.odd (length s)); [discriminate|]. apply (decode_pairs_sound (length s)); auto.
Qed.
Print Assumptions decode_hex_roundtrip.
Print Assumptions decode_hex_sound.
