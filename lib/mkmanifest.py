#!/usr/bin/env python3
# Regenerates MANIFEST.json from the table below (kept in one place so that the
# manifest is always valid and in step with lib/props.py).
import json, os, sys
sys.path.insert(0, os.path.dirname(os.path.abspath(__file__)))
import props

VERIF = os.path.dirname(os.path.dirname(os.path.abspath(__file__)))

CLAIMS = {
    "C20": dict(
        text="Proof: every clause of the property is a Coq theorem (Properties/C20.v) over the tables, constants and the normalisation file that the translator dumps from the compiled /repo on every run; "
             "each theorem enumerates its whole finite domain (all 65536 record types, every table entry) inside the kernel. The UNKNOWN[n] printing/parsing logic is hand-modelled and tied by a correspondence run through the auparse API.",
        note="Trusted: Coq kernel + VM, the translator gentables, the Go toolchain; the hand-written model of String()/GetAuditMessageType (tied by correspondence on sampled types in quick, all 65536 in thorough). No axioms.",
        technique="Coq proof by exhaustive kernel evaluation over translator-generated tables + model/implementation correspondence",
        design="6 C20"),
}

REASM_NOTE = ("Trusted: Coq kernel + VM; the hand-written model Model/Reassembler.v (tied to reassembler.go by the correspondence run: every generated history is run on the real Reassembler and the model must produce the same callbacks, "
              "arguments and return values); clock readings are bracketed by harness stamps, undecided cases are discarded and counted; sort.Sort is modelled as insertion sort (n<=12) / any sorted permutation. No axioms.")
CLAIMS.update({
    "C01": dict(text="Proof: Theorem C01_exactly_once_grouped (Properties/C01.v) holds for every call history, every maxInFlight, timeout, clock reading and sequence number of the model (induction over the history with the invariant 'seqs and events have the same keys; each event holds exactly the undelivered messages of its sequence in push order'); "
                     "the same boolean checker is evaluated on what the implementation did on every generated history.",
                note=REASM_NOTE, technique="Coq invariant proof over all histories + model/implementation correspondence", design="6 C01"),
    "C02": dict(text="Proof: Theorem C02_order / C02_order_obs: on every history whose buffered sequences fit one 2^24 window (any base, straddling 2^32) each delivered event is the lowest buffered one under the code's roll-over comparator; lemma less_in_window shows the comparator is the order by distance from the window base. The checker is also evaluated on the implementation's trace.",
                note=REASM_NOTE, technique="Coq invariant proof (sortedness inside a window) + correspondence", design="6 C02"),
    "C03": dict(text="Proof: Theorem C03_lost_exact: for every history the EventsLost reports equal, call by call, the sequence numbers skipped between in-order deliveries (serial-number arithmetic), one positive report per call, nothing for late/duplicate events. Proved of the repaired arithmetic (fix commit 38ca415); the checker is also evaluated on the implementation's trace.",
                note=REASM_NOTE, technique="Coq proof over all histories + correspondence", design="6 C03"),
    "C10": dict(text="Proof: C10_bound_and_cause_on_traces (the checker the judge evaluates on recorded histories - bound after every Push, a cause for every delivery outside Close, oldest buffered event not complete inside a window, all reconstructed from pushes and callbacks alone - accepts every run of the model: all histories, maxInFlight >= 0, timeouts, clock readings; proved by a simulation between the trace walker's state and the model's state), C10_bound_any_history (after every Push at most maxInFlight distinct sequences are undelivered, every history), C10_evicted_only_for_cause (every delivery CleanUp makes outside Close is of an event that is complete, or found more than maxInFlight buffered, or whose timeout had elapsed - every buffer, configuration, clock reading), C10_head_not_complete, C10_log_is_the_deliveries. The cause and oldest clauses are stated on the model's state; on observed traces they are decided by the trace walker (Check/ChkReasm.v) and by model agreement.",
                note=REASM_NOTE + " Clock readings of the implementation are bracketed by harness stamps; the walker uses them conservatively.", technique="Coq proof (bound) + trace checker + correspondence", design="6 C10"),
    "C11": dict(text="Proof on the small-step concurrent model (any number of threads, any programs, re-entrant callbacks, every schedule): C11_all_schedules_partial (each put message delivered at most once, at most one Close wins), C11_flushed_after_close (once every frame has run, everything put before Close's Clear step has been delivered - with the former, exactly once), C11_exactly_one_close (a Close that returned means exactly one compare-and-swap won), C11_single_sequence_groups (every delivered group holds one sequence number). The tie to the code is the verif yield hook: the harness forces schedules step by step and the model run on the same schedule must give the same callbacks and returns; unscheduled stress runs, close storms and a race-detector run support the runtime part.",
                note=REASM_NOTE + " PARTIAL: data-race freedom, deadlock freedom and the behaviour of sync.Mutex/atomic are runtime facts no Gallina model exhibits (forced schedules with a 2 s deadlock deadline, stress runs and go -race support them).",
                technique="Coq proof over all schedules of a small-step model + forced-schedule correspondence via build-tag hook + race detector", design="6 C11"),
})

CLIENT_NOTE = ("Trusted: Coq kernel + VM; the hand-written model Model/AuditClient.v, tied to audit.go by the correspondence run (every generated history is played to the real AuditClient through its exported Netlink field by a simulated kernel; "
               "results, requests on the wire, socket closes and the number of receives consumed must equal the model's); Spec/Uapi.v (UAPI numbers and struct audit_status layout, hand-written); translator for constants/offsets. No axioms.")
CLAIMS.update({
    "C08": dict(text="Proof: for every client state and every kernel script in the property's fault model (predicate answers: unbounded noise of unsolicited records and runs of up to nine transient failures, then the ACK), the Set* commands in WaitForReply mode, AddRule, DeleteRule and GetStatus return nil / the status exactly when errno = 0 and otherwise an error carrying that errno; a foreign sequence number is never success. "
                     "GetRules returns exactly the rule payloads sent for the request (C08_get_rules_verdict). DeleteRules (the listing followed by one delete request per rule): C08_delete_rules_verdict (the count when every delete is acknowledged with 0) and C08_delete_all_first_error (the first delete the kernel rejects is the verdict, later rules are not touched); it is also decided on every implementation run by the independent script reading of Check/ChkClient.v.",
                note=CLIENT_NOTE + " PARTIAL: DeleteRules lacks a composed theorem (checked on traces).", technique="Coq proofs over all scripts in the fault model + simulated-kernel correspondence", design="6 C08"),
    "C16": dict(text="Proof: C16_setters (every setter x every value x both modes x every state: one AUDIT_SET, REQUEST|ACK, full-size UAPI struct with exactly the mask bit and value), C16_from_wire (every buffer: EOF below 32 bytes, else the eleven UAPI words with zero fill, trailing bytes ignored), C16_layout and C16_constants over generated offsets/constants. "
                     "The failure-mode constants are a known finding (all 0), stated as a two-way disjunction so that a third value fails.",
                note=CLIENT_NOTE, technique="Coq proofs over generated layout/constants against a hand-written UAPI spec + correspondence", design="6 C16"),
    "C17": dict(text="Proof: C17_close_at_most_once for every operation sequence, kernel script and fault script; C17_first_close (PID cleared iff SetPID was used, before the socket close); C17_wait_consumes_once_in_order (acknowledged pending requests are consumed once, in order; a second call consumes nothing); C17_wait_returns_first_error (the first kernel error is returned, the ACKs before it consumed, the failed request dropped from the list, later ones left pending). "
                     "Partial: the copy of rule data is decided on every implementation run (rules are read back after later traffic reused the receive buffer); concurrent Close is a runtime fact supported by close storms.",
                note=CLIENT_NOTE + " PARTIAL: sync.Once under real concurrency is runtime; first-kernel-error clause checked on traces.", technique="Coq invariant proofs over all operation sequences + simulated-kernel correspondence", design="6 C17"),
    "C19": dict(text="Proof: C19_timeout_and_close_on_traces (the checker the judge evaluates on recorded histories - oldest remaining event not stale after every Maintain/Push, no delivery without cause, first Close succeeds and leaves nothing, later Maintain/Close return the error without callbacks - accepts every run of the model for every timeout and clock reading; same simulation as C10), C19_head_not_stale (what CleanUp leaves at the head is not expired: a stale event goes in the first call whose clock reading is past its expiry once it is the oldest), C19_no_early_timeout (an incomplete event within the bound is evicted only at a reading past its expiry), C19_expiry_fixed_at_open (expiry = reading of the opening Put + timeout, never refreshed), for every timeout and clock reading; C19_closed_is_final, C19_first_close_succeeds, flush-on-Close via chk_C01. On observed traces the timeout clauses are decided with real sleeps by the trace walker and by model agreement.",
                note=REASM_NOTE + " PARTIAL: that time.Now() advances as the model's clock input is a runtime fact (30 ms timeouts, 70 ms real sleeps, stamps around every call; undecided comparisons discarded).", technique="Coq proofs (Close) + trace checker with real sleeps + correspondence", design="6 C19"),
})

CLAIMS["C18"] = dict(
    text="Proof: C18_frame (every message: header length/type/flags/port id, payload verbatim, wire sequence = returned sequence), C18_audit_parser (every buffer: EINVAL below 16 bytes, else the UAPI header fields and everything after byte 16), "
         "C18_seq_increasing / C18_seq_distinct (returned numbers increase and are pairwise distinct for any interleaving of the atomic increments), C18_receive_kernel_only (data only for a datagram of at least a header from port 0). "
         "Tie: serialize and the parser through verif accessors; Send and Receive over live NETLINK_ROUTE / NETLINK_USERSOCK sockets (kernel's verbatim quote of the request; datagrams from a second user-space socket).",
    note="Trusted: Coq kernel + VM; Model/Netlink.v; Spec/Uapi.v; live-socket observations (skipped and recorded when netlink is unavailable). PARTIAL: that the kernel stamps senders' port ids and that atomic.AddUint32 is atomic are runtime facts; the Receive decision logic is modelled (not driven with injected sender addresses). No axioms.",
    technique="Coq proofs of the framing codec + live-socket correspondence", design="6 C18")

RULE_NOTE = ("Trusted: Coq kernel + VM; hand-written models Model/RuleEncode.v, RuleDecode.v, Mask.v, Flags.v, FilterRe.v (tied to rule/ by the correspondence: generated rules go through the real flags.Parse, rule.Build and rule.ToCommandLine and the model must agree); "
             "Spec/UapiRule.v (UAPI numbers by name and the fixed-offset reader of struct audit_rule_data, hand-written, cross-checked against /usr/include/linux/audit.h while writing); the generator as oracle for text spellings of numbers; os.Stat/GOARCH/user database as oracles. No axioms.")
CLAIMS.update({
    "C06": dict(text="Proof: C06_wire_exact (for every well-formed rule data the fixed-offset UAPI reader recovers list, action, count, mask, the triples in order with zero fill, buflen and the strings back to back), C06_accepted_rules_are_well_formed / C06_accepted_rules_decode (every rule the Build model accepts yields such data, so this holds for the bytes of every accepted rule), C06_tables_are_uapi and C06_layout (generated tables/offsets equal the UAPI constants by name), C06_one_triple_per_filter (for every parsed line the Build-from-text model accepts: one triple per filter in the order given - codes from the tables, numeric values through the modelled value parsers, string values as lengths with the strings appended - followed by the joined keys), C06_mask_exact / C06_mask_range (exactly the requested bits). "
                     "The independent checker chk_C06 decodes the bytes of the real Build for every generated rule and compares them with what the rule asks for in UAPI numbers; the value parsers and Build-from-text are tied per value spelling and per line.",
                note=RULE_NOTE + " PARTIAL: addFilter's per-field value parsers (strconv spellings, errno and message type names) are exercised by correspondence, not proved.", technique="Coq proof of the wire codec against a UAPI reader + generated-table obligations + correspondence", design="6 C06"),
    "C07": dict(text="Proof: C07_round_trip - for every parsed line (-a/-A syscall rule or -w file watch) that the Build model accepts within the property's domain (values without blanks, filesystem agreeing with a watch-shaped rule, known finding 103 excluded), ToCommandLine succeeds on the wire form, its text split at blanks is read by flags.Parse and built into the very same rule data, hence byte-identical wire data and the same text again; both print forms (-a and -w) are covered. Built from per-layer theorems: value codecs for every field class (C07_values_read_back: errno names, all 65536 record types, arch abbreviations, uid/gid sign, perm letters), the -F/-C scanners, syscall names against the arch in force, C07_mask_read_back, decode of encode, blank-splitting of the printed line. "
                     "The models of ToCommandLine, of the value parsers and of Build-from-text are tied to the implementation on every generated rule (text equality, value words, bytes, and the model's own way back). Three more defects were found while proving (two repaired, one recorded as known finding 103).",
                note=RULE_NOTE + " shellquote.Split is modelled as blank-splitting (lines without quotes or backslashes: the property's domain); os.Stat and the user database are oracles (stat is a parameter of the theorem).", technique="Coq proof of the whole text round trip on the model (all rules, both print forms) + correspondence of every modelled stage + round-trip run on the implementation", design="6 C07"),
    "C13": dict(text="Proof: C13_decode_total (for every byte slice the decoder model, with every slice expression, array index and allocation explicit, never panics), C13_success_valid (success implies field count <= 64 and the buffer inside the slice, so allocations are bounded by 64 whatever the input claims), C13_mask_total (every syscall number is set or rejected). "
                     "The harness replaces each header word of valid rules by boundary values, truncates, and feeds extreme Rule values and arbitrary lines; panics and allocations above 64 MiB are violations. Three panics of the pinned tree were repaired.",
                note=RULE_NOTE + " PARTIAL: Build's value parsers, ToCommandLine and Build-from-text are now total Gallina models tied per case (Model/RuleValue.v, RuleText.v, RuleBuild.v: a model cannot panic, so a panic of the implementation is a disagreement); shellquote and the flag package internals are exercised, not modelled, for panics.", technique="Coq totality proof of the decoder/mask model + boundary-value correspondence", design="6 C13"),
    "C14": dict(text="Proof: C14_tokens_read_as_items (for every line of flags with arbitrary values the flag package's reading equals the item-by-item reading: nothing skipped), C14_stray_rejected, C14_filter_complete / C14_compare_complete (field, operator, value are the complete text around the operator), C14_exclusive, C14_patterns_pinned (the modelled patterns are the compiled ones). "
                     "Every generated line's returned rule is compared with both readings. Stray-word, unanchored-pattern and repeated-flag defects of the pinned tree were repaired.",
                note=RULE_NOTE + " shellquote.Split stays outside the model (checked per case).", technique="Coq refinement proof (token reading = declarative reading) + scanner soundness + correspondence", design="6 C14"),
})

PARSE_NOTE = ("Trusted: Coq kernel + VM; the hand-written model Model/Parser.v with Header.v, KV.v (kvRegex scanner), AVC.v, Trim.v, Hex.v (tied to auparse by the correspondence: the model's Data()/Tags() must equal the implementation's on every generated and spliced record, "
              "its parsed header on every generated and damaged line); generated tables (record types, errno, arch, syscalls, signal names); Go's time and net packages as oracles for the expected timestamp and IPv6 text. No axioms.")
CLAIMS.update({
    "C04": dict(text="Proof: C04_header_roundtrip (every S < 2^34, mmm < 1000, N < 2^32, any text without '(' in front and ANY text behind the header parse back to exactly S, mmm, N and the rest), C04_type_roundtrip (all 65536 record types, UNKNOWN[n] included), C04_log_line_roundtrip (a whole line type=T msg=audit(S.mmm:N)rest, every T, S, mmm, N and any rest that survives trimming: ParseLogLine returns exactly T, the time in UTC seconds and nanoseconds, N and the raw text, through Parse on the text after the first msg=). "
                     "ToMapStr's well-known keys, trimming of padded lines and the rejection of damaged headers are modelled and decided on every generated line against the implementation.",
                note=PARSE_NOTE + " PARTIAL: trimming / ToMapStr / rejection of malformed headers have no theorem; the checker decides them per line.", technique="Coq round-trip proof of the header codec + exhaustive type sweep + correspondence", design="6 C04"),
    "C05": dict(text="Partial proof: C05_sockaddr_slices_in_range (every slice expression of parseSockaddr/hexToIP is inside the string, for every input), C05_hex_sound. The Gallina model of the whole Data() pipeline is total by construction and agrees with the implementation on every spliced record of every specially handled type; "
                     "the run itself checks no panic (recover), no hang (5 s deadline) and equal results on repeated Data/Tags/ToMapStr calls.",
                note=PARSE_NOTE + " PARTIAL: absence of panics in regexp, strconv, fmt, net and in the glue is observed on generated inputs, not proved; termination of RE2 is assumed.", technique="Coq proof of in-range slicing for the index-arithmetic anchors + total executable model + fuzzed correspondence", design="6 C05"),
    "C12": dict(text="Proof: C12_hex_roundtrip (every byte string), C12_quoted_field_tokenised (every key, every double-quoted value without a double quote that does not end in a backslash, followed by any text, is tokenised as exactly that field), C12_body_tokenised (a whole body of blank-separated fields, each value quoted or one plain token, is cut into exactly those fields in order), C12_fields_extracted (the extraction before enrichment maps every key to the value written, quotes removed), C12_data_keeps_plain_fields (Data() of every record type without enrichment of its own returns every ordinary field of such a body with the value written), C12_hex_field_decodes (a hex-encoded field decodes to the encoded bytes, NULs as blanks), C12_execve_arguments / C12_execve_hex_argument (every EXECVE argument decoded or kept, nothing else changed), C12_sockaddr_ipv4 / C12_sockaddr_unix (every IPv4 address and port, every unix path), C12_result_rule / C12_unset_rule / C12_exit_rule (the derived fields). "
                     "The remaining pipeline (trimming, placeholders, nested msg=, per-type decoding incl. IPv4/IPv6/unix socket addresses, derived fields) is modelled executable and decided per generated record: independent expectations from the generator, and model = implementation on the whole map. Known finding: a quote inside a nested msg='...' field.",
                note=PARSE_NOTE + " PARTIAL: per-type enrichment and IPv6 text have no theorem.", technique="Coq proofs of the two kernel encodings + executable model of Data() + correspondence", design="6 C12"),
})

COAL_NOTE = ("Trusted: Coq kernel + VM; the routing model in Check/ChkCoalesce.v (tied to aucoalesce by the correspondence: the routed part of every returned event - data, user ids, SELinux labels, result, session, paths, process args - must equal the model's on every generated group); "
             "records enter as what Data()/Tags() returned; the event is observed through its JSON form plus Warnings; reflect.DeepEqual for snapshot equality. No axioms.")
CLAIMS.update({
    "C09": dict(text="Partial proof: C09_primary_nothing_dropped_partial (newEvent stores every field of the primary record under its own name in Data / User.IDs / User.SELinux, for every record), C09_result_session, C09_compound_fields_kept (a record of a type without routing of its own, anywhere in a compound event: every field whose key no other record type may overwrite is in Data at the end, with the written value if the key was new, and a warning is counted if it was taken), C09_compound_paths_kept (every PATH record is in Paths), C09_file_summary_mirrors_selected_path (setFileObject on the model of applyNormalization: path, inode, device, owner ids and mode & 07777 of the PATH record the normalisation selects), C09_error_not_partial (no records, or several without SYSCALL, give an error). "
                     "applyNormalization itself (which normalisation an event gets, ECS category/type merge, action, object type, file/socket object, actor/object/how from the first key present) is modelled over the generated normalisation records and must equal the implementation on every generated group. The whole property - identity, every key/value of every constituent record present or warned, file summary mirroring the selected PATH record, mode & 07777 - is also decided by the independent checker chk_C09 on every generated group, and the object type on ALL 65536 modes (exhaustive). Known finding: every mode is classified as a regular file.",
                note=COAL_NOTE + " PARTIAL: applyNormalization (summary, ECS) is not modelled; nothing-dropped for compound events is checked per generated group, proved only for the primary record.", technique="Coq proof of the primary-record routing + independent trace checker + exhaustive mode sweep + correspondence", design="6 C09"),
    "C15": dict(text="Proof on a store-passing model (C15_inputs_intact, C15_repeatable, C15_isolated: the repaired CoalesceMessages returns the store it was given). Whether the implementation is that model is decided by the run: Data/Tags/ToMapStr snapshots of every input before and after, three repeated calls, ResolveIDs with hard-coded users, the last eight events re-compared after every later call, and a race-detector run with 16 goroutines. The pinned tree deleted fields from its inputs (repaired).",
                note=COAL_NOTE + " PARTIAL: the theorems are immediate on the functional model (it cannot alias); aliasing with the normalisation tables and data races are runtime facts observed by the harness and the race detector, not proved.", technique="store-passing Coq model + before/after snapshots, repeated calls, pool re-comparison, race detector", design="6 C15"),
})

NOT_YET = {}

def main():
    allp = [json.loads(l)["id"] for l in open(os.path.join(VERIF, "properties.jsonl"))]
    checks = []
    for pid in allp:
        if pid not in CLAIMS or pid not in props.SPECS:
            continue
        c = CLAIMS[pid]
        checks.append({
            "property_id": pid,
            "quick_cmd": "bin/check %s --tier quick" % pid,
            "thorough_cmd": "bin/check %s --tier thorough" % pid,
            "evidence_file": "/verif/evidence/%s.json" % pid,
            "replay_cmd_template": "bin/check %s --replay {path}" % pid,
            "engine": "coq-model-and-correspondence",
            "level_claimed": {"category": "proof", "text": c["text"], "design_ref": "DESIGN.md section " + c["design"]},
            "level_note": c["note"],
            "technique": c["technique"],
        })
    na = [{"property_id": pid, "reason": NOT_YET.get(pid, "check not built yet in this round (model and theorem exist or are designed in DESIGN.md section 6; not claimed until the correspondence harness runs)")}
          for pid in allp if pid not in CLAIMS or pid not in props.SPECS]
    m = {
        "version": 1,
        "setup_cmd": "sh bin/setup",
        "hooks": {
            "guard": "verif",
            "enable": "go build -tags verif (the harness module /verif/harness replaces github.com/elastic/go-libaudit/v2 by /repo)",
            "baseline_off_cmd": "cd /repo && go build ./... && go test -vet=off -count=1 -timeout 25m ./...",
            "source_commits": ["5701b8c"],
            "add_only": True,
        },
        "engines": [{"name": "coq-model-and-correspondence", "path": "bin/check", "serves_properties": [c["property_id"] for c in checks],
                     "kind_free_text": "Coq 8.16.1 theorems over hand-written executable models and translator-generated tables; Go harness drives /repo (tag verif) and coqc judges every observation with the model and the property's boolean checker"}],
        "checks": checks,
        "not_applicable": na,
        "notes": "See DESIGN.md. bin/check <id> rebuilds the harness from /repo's working tree, regenerates coq/Gen, re-checks the theorems, then runs the correspondence.",
    }
    json.dump(m, open(os.path.join(VERIF, "MANIFEST.json"), "w"), indent=1)

main()
