#!/usr/bin/env python3
# Regenerates MANIFEST.json from the table below (kept in one place so that the
# manifest is always valid and in step with lib/props.py).
import json, os, sys
sys.path.insert(0, os.path.dirname(os.path.abspath(__file__)))
import props

VERIF = os.path.dirname(os.path.dirname(os.path.abspath(__file__)))

CLAIMS = {
    "C20": dict(
        text="Proof: every clause of the property is a Coq theorem (Properties/C20.v) over the tables, constants and the normalisation file that the translator dumps from the compiled /repo on every run; "
             "each theorem enumerates its whole finite domain (all 65536 record types, every table entry) inside the kernel. The UNKNOWN[n] printing/parsing logic is hand-modelled and tied by a correspondence run through the auparse API.",
        note="Trusted: Coq kernel + VM, the translator gentables, the Go toolchain; the hand-written model of String()/GetAuditMessageType (tied by correspondence on sampled types in quick, all 65536 in thorough). No axioms.",
        technique="Coq proof by exhaustive kernel evaluation over translator-generated tables + model/implementation correspondence",
        design="6 C20"),
}

NOT_YET = {}

def main():
    allp = [json.loads(l)["id"] for l in open(os.path.join(VERIF, "properties.jsonl"))]
    checks = []
    for pid in allp:
        if pid not in CLAIMS or pid not in props.SPECS:
            continue
        c = CLAIMS[pid]
        checks.append({
            "property_id": pid,
            "quick_cmd": "bin/check %s --tier quick" % pid,
            "thorough_cmd": "bin/check %s --tier thorough" % pid,
            "evidence_file": "/verif/evidence/%s.json" % pid,
            "replay_cmd_template": "bin/check %s --replay {path}" % pid,
            "engine": "coq-model-and-correspondence",
            "level_claimed": {"category": "proof", "text": c["text"], "design_ref": "DESIGN.md section " + c["design"]},
            "level_note": c["note"],
            "technique": c["technique"],
        })
    na = [{"property_id": pid, "reason": NOT_YET.get(pid, "check not built yet in this round (model and theorem exist or are designed in DESIGN.md section 6; not claimed until the correspondence harness runs)")}
          for pid in allp if pid not in CLAIMS or pid not in props.SPECS]
    m = {
        "version": 1,
        "setup_cmd": "sh bin/setup",
        "hooks": {
            "guard": "verif",
            "enable": "go build -tags verif (the harness module /verif/harness replaces github.com/elastic/go-libaudit/v2 by /repo)",
            "baseline_off_cmd": "cd /repo && go build ./... && go test -vet=off -count=1 -timeout 25m ./...",
            "source_commits": ["5701b8c"],
            "add_only": True,
        },
        "engines": [{"name": "coq-model-and-correspondence", "path": "bin/check", "serves_properties": [c["property_id"] for c in checks],
                     "kind_free_text": "Coq 8.16.1 theorems over hand-written executable models and translator-generated tables; Go harness drives /repo (tag verif) and coqc judges every observation with the model and the property's boolean checker"}],
        "checks": checks,
        "not_applicable": na,
        "notes": "See DESIGN.md. bin/check <id> rebuilds the harness from /repo's working tree, regenerates coq/Gen, re-checks the theorems, then runs the correspondence.",
    }
    json.dump(m, open(os.path.join(VERIF, "MANIFEST.json"), "w"), indent=1)

main()
