# vcheck — the driver shared by every property check (DESIGN.md section 2).
#
#   bin/check Cxx [--tier quick|thorough] [--replay FILE]
#
# One run: rebuild the Go harness and the translator against /repo's working
# tree (build tag verif), regenerate coq/Gen/*.v, re-check the theorems of the
# property (make of Properties/Cxx.vo and what it depends on), drive the
# implementation on generated inputs, and let Coq (vm_compute of the model and of
# the boolean checker, inside coqc) judge every observation.  The verdict
# protocol is the one of DESIGN.md section 1.
import fcntl
import hashlib
import json
import os
import re
import subprocess
import sys
import time
from concurrent.futures import ThreadPoolExecutor

VERIF = os.path.dirname(os.path.dirname(os.path.abspath(__file__)))
COQ = os.path.join(VERIF, "coq")
HARNESS = os.path.join(VERIF, "harness")
BIN = os.path.join(VERIF, "build", "bin")
CASES = os.path.join(VERIF, "build", "cases")
REPLAYS = os.path.join(VERIF, "replays")
EVIDENCE = os.path.join(VERIF, "evidence")
REPO = "/repo"

GOENV = dict(os.environ, GOFLAGS="-mod=mod", GOPROXY="off", GOSUMDB="off", GOTOOLCHAIN="local", CGO_ENABLED="0")

FORBIDDEN = re.compile(r"\b(Admitted|admit|Axiom|Axioms|Parameter|Parameters|Conjecture|Conjectures|Abort)\b|Unset\s+Guard|bypass_check|type-in-type|impredicative-set|Admit\s+Obligations")

TRUSTED_BASE = [
    "Coq 8.16.1 kernel (coqc; vm_compute used for finite obligations and for evaluating model and checker on cases; native_compute not used)",
    "axioms: none expected (each property theorem prints 'Closed under the global context'; anything else is listed below from this run's Print Assumptions output)",
    "translator harness/cmd/gentables (dumps tables/constants/layouts of the compiled /repo into coq/Gen/*.v)",
    "Go harness as driver and recorder of the implementation (harness/cmd/*), Go toolchain",
    "this driver (lib/vcheck.py): case sharding, parsing of coqc output",
    "no extraction: the model is evaluated only inside coqc",
]


def log(*a):
    print(*a, file=sys.stderr, flush=True)


class Broken(Exception):
    """The check itself could not run (never reported as a pass)."""


class Result:
    def __init__(self, prop, tier, seed):
        self.prop, self.tier, self.seed = prop, tier, seed
        self.violations = []   # (replay dict, has_input)
        self.known = []        # text lines
        self.evaluations = 0
        self.nontrivial = set()
        self.samples = []
        self.classes = {}
        self.meta = {}
        self.obligations = 0
        self.discharged = 0
        self.checker_cmds = []
        self.axioms = []
        self.assumption_lines = 0
        self.closed_lines = 0
        self.notes = []
        self.t0 = time.time()
        self.extra = {}


def sh(cmd, cwd=None, env=None, timeout=None, stdin=None):
    p = subprocess.run(cmd, cwd=cwd, env=env, timeout=timeout, input=stdin,
                       stdout=subprocess.PIPE, stderr=subprocess.STDOUT, text=True, errors="replace")
    return p.returncode, p.stdout


def gates():
    """Refuse to run if the development contains anything that declares an axiom
    or switches a kernel check off."""
    bad = []
    for root, _, files in os.walk(COQ):
        for f in files:
            if not f.endswith(".v"):
                continue
            p = os.path.join(root, f)
            for n, line in enumerate(open(p, errors="replace"), 1):
                if FORBIDDEN.search(line):
                    bad.append("%s:%d: %s" % (p, n, line.strip()))
                if re.match(r"\s*(Variable|Variables|Hypothesis|Hypotheses|Context)\b", line):
                    # only allowed inside a Section: checked by coqc itself being
                    # run with the warning turned into an error (see mk.sh).
                    pass
    if bad:
        raise Broken("forbidden vernacular in the development:\n" + "\n".join(bad[:20]))


def build_go(res):
    os.makedirs(BIN, exist_ok=True)
    # go.sum of the harness module must cover /repo's requirements
    rc, out = sh(["go", "build", "-tags", "verif", "-o", BIN + "/", "./cmd/..."], cwd=HARNESS, env=GOENV, timeout=600)
    if rc != 0:
        return False, out
    return True, out


def race_run(res, cmd, args, timeout=1800):
    """Build one harness command with the race detector and run it; a race
    report is a violation (supporting evidence for the runtime part of the
    property, never a proof of absence)."""
    env = dict(GOENV, CGO_ENABLED="1")
    rc, out = sh(["go", "build", "-race", "-tags", "verif", "-o", os.path.join(BIN, cmd + "_race"), "./cmd/" + cmd], cwd=HARNESS, env=env, timeout=900)
    if rc != 0:
        res.notes.append("race build unavailable: " + out[-300:])
        res.meta["race_detector"] = "not run (race build failed)"
        return 0
    p = subprocess.run([os.path.join(BIN, cmd + "_race")] + args, stdout=subprocess.PIPE, stderr=subprocess.PIPE, timeout=timeout,
                       env=dict(os.environ, GORACE="halt_on_error=0 exitcode=66"))
    err = p.stderr.decode("utf-8", "replace")
    n = len([l for l in p.stdout.decode("utf-8", "replace").splitlines() if l.startswith("{")])
    res.meta["race_detector"] = "%s_race %s: %d runs, %d race reports" % (cmd, " ".join(args), n, err.count("WARNING: DATA RACE"))
    if "WARNING: DATA RACE" in err:
        violation(res, {"property": res.prop, "what": "the Go race detector reported a data race", "command": [cmd + "_race"] + args,
                        "report": err[:6000]}, True)
        return 1
    if p.returncode != 0:
        raise Broken("%s_race exited %d: %s" % (cmd, p.returncode, err[-1000:]))
    return 0


def gen_tables():
    rc, out = sh([os.path.join(BIN, "gentables"), os.path.join(COQ, "Gen")], timeout=300)
    if rc != 0:
        raise Broken("gentables failed:\n" + out)
    return out


def coq_make(targets, timeout=1500, jobs=16):
    cmd = ["sh", os.path.join(COQ, "mk.sh"), "-k", "-j%d" % jobs] + targets
    env = dict(os.environ, MK_TIMEOUT=str(timeout))
    t = time.time()
    rc, out = sh(cmd, env=env, timeout=timeout + 60)
    return rc == 0, out, " ".join(cmd), time.time() - t


def failing_files(makelog):
    """Files whose compilation failed, in order, with the error text."""
    fails = []
    for m in re.finditer(r'File "([^"]+)", line (\d+), characters [^\n]*\n(Error:(?:[^\n]*\n){1,12})', makelog):
        fails.append((m.group(1), int(m.group(2)), m.group(3).strip()[:600]))
    for m in re.finditer(r"make(?:\[\d+\])?: \*\*\* \[[^\]]*: ([^\]\s]+)\] (Error \d+|Terminated)", makelog):
        if not any(os.path.basename(f[0]).split(".")[0] == os.path.basename(m.group(1)).split(".")[0] for f in fails):
            fails.append((m.group(1), 0, m.group(2)))
    return fails


def assumptions(makelog, res):
    """Count Print Assumptions outputs in the log of this run (only present for
    files that were (re)compiled); the committed reference lives in evidence."""
    res.closed_lines += len(re.findall(r"Closed under the global context", makelog))
    for m in re.finditer(r"Axioms:\n((?:[^\n]+\n)+?)(?:\n|COQC|make)", makelog):
        res.axioms.append(m.group(1).strip())


def print_assumptions_of(vfile):
    """Re-run Print Assumptions for a property file (cheap: loads the .vo and
    prints), so that every run's evidence lists the axioms actually used."""
    mod = os.path.basename(vfile)[:-2]
    names = re.findall(r"^\s*Print Assumptions (\w+)\.", open(vfile).read(), re.M)
    if not names:
        return [], 0, []
    script = "Require Import LA.Properties.%s.\n" % mod + "".join("Print Assumptions %s.\n" % n for n in names)
    rc, out = sh(["coqtop", "-R", COQ, "LA", "-w", "-notation-overridden,-deprecated", "-quiet"], stdin=script, timeout=300)
    closed = len(re.findall(r"Closed under the global context", out))
    axioms = re.findall(r"Axioms:\s*\n((?:.+\n)+?)\n", out)
    return names, closed, axioms


def theorem_names(vfile):
    return re.findall(r"^\s*(?:Theorem|Corollary)\s+(\w+)", open(vfile).read(), re.M)


class Died(Exception):
    """the harness process died, or was stopped by its own watchdog, while the implementation was working on an input it had announced"""
    def __init__(self, cmd, args, announced, how, stderr):
        Exception.__init__(self, "%s %s: %s on %s" % (cmd, " ".join(args), how, json.dumps(announced)[:300]))
        self.cmd, self.hargs, self.announced, self.how, self.stderr = cmd, list(args), announced, how, stderr


def run_harness(cmd, args, timeout=1800):
    """Run a harness command; it prints one JSON object per line on stdout.  {"begin": input} announces the input
    handed to the implementation next, a case line or {"end":1} closes the announcement, {"hung": ...} is the
    harness's own watchdog giving up on an announced input."""
    timed_out = False
    try:
        p = subprocess.run([os.path.join(BIN, cmd)] + args, stdout=subprocess.PIPE, stderr=subprocess.PIPE, timeout=timeout)
        stdout, stderr, rcode = p.stdout, p.stderr, p.returncode
    except subprocess.TimeoutExpired as e:
        stdout, stderr, rcode, timed_out = e.stdout or b"", e.stderr or b"", -1, True
    lines = []
    inflight, hung = None, None
    for ln in stdout.decode("utf-8", "replace").split("\n"):      # not splitlines(): U+0085 and friends inside a JSON string are not line ends
        ln = ln.strip()
        if ln.startswith("{"):
            try:
                o = json.loads(ln)
            except Exception:
                if rcode != 0:
                    continue    # a line cut short by the death of the process
                raise Broken("harness %s printed an unparsable line: %r" % (cmd, ln[:200]))
            if "begin" in o:
                inflight = o["begin"]
            elif "end" in o:
                inflight = None
            elif "hung" in o:
                hung = o
            else:
                if "coq" in o:
                    inflight = None
                lines.append(o)
    err = stderr.decode("utf-8", "replace")
    if hung is not None:
        raise Died(cmd, args, hung["hung"].get("begin"), "the call had not returned after %s s" % hung.get("seconds"), err[-6000:])
    if rcode != 0:
        if inflight is not None:
            how = "no answer within %d s" % timeout if timed_out else "the process died (exit %d) inside the call" % rcode
            m = re.search(r"^(fatal error: .*|panic: .*|runtime: goroutine stack exceeds.*)$", err, re.M)
            if m:
                how += ": " + m.group(1)[:200]
            raise Died(cmd, args, inflight, how, err[:3000] + "\n...\n" + err[-3000:] if len(err) > 6000 else err)
        raise Broken("harness %s %s exited %d:\n%s" % (cmd, " ".join(args), rcode, err[-3000:]))
    return lines


CASE_TMPL = """(* generated by lib/vcheck.py: implementation observations judged by the model *)
From Coq Require Import List NArith ZArith String Ascii Bool.
%(imports)s
Import ListNotations.
Local Open Scope string_scope.
Definition cases : list (%(case_type)s) := [
%(cases)s
].
Fixpoint number {A} (i : N) (l : list A) : list (N * A) := match l with [] => [] | x :: r => (i, x) :: number (N.succ i) r end.
Definition verdicts : list N := Eval vm_compute in
  flat_map (fun p : N * (%(case_type)s) => let c := %(judge)s (snd p) in if N.eqb c 0 then [] else [fst p; c]) (number 0 cases).
Print verdicts.
Definition total : N := Eval vm_compute in N.of_nat (List.length cases).
Print total.
"""


def judge_cases(prop, spec, cases, res, shard_size=200, jobs=16, timeout=900):
    """cases: list of dicts with key 'coq'.  Returns list of (index, code) for
    every case whose verdict is not 0."""
    os.makedirs(CASES, exist_ok=True)
    for f in os.listdir(CASES):
        if f.startswith("cases_%s_" % prop):
            os.unlink(os.path.join(CASES, f))
    # shards are cut by case count and by text size, so that heavy and light cases both spread over the cores
    shards, cur, cur_bytes, starts = [], [], 0, []
    for i, c in enumerate(cases):
        if cur and (len(cur) >= shard_size or cur_bytes + len(c["coq"]) > 400000):
            shards.append(cur)
            cur, cur_bytes = [], 0
        if not cur:
            starts.append(i)
        cur.append(c)
        cur_bytes += len(c["coq"])
    if cur:
        shards.append(cur)

    def run(k):
        shard = shards[k]
        name = "cases_%s_%d" % (prop, k)
        path = os.path.join(CASES, name + ".v")
        with open(path, "w") as f:
            f.write(CASE_TMPL % dict(imports=spec["imports"], case_type=spec["case_type"], judge=spec["judge"],
                                     cases=";\n".join("  " + c["coq"] for c in shard)))
        rc, out = sh(["coqc", "-R", COQ, "LA", "-w", "-notation-overridden,-deprecated", "-o", os.path.join(CASES, name + ".vo"), path],
                     cwd=CASES, timeout=timeout)
        if rc != 0:
            return k, None, out
        m = re.search(r"verdicts\s*=\s*(.*?)\s*:\s*list N", out, re.S)
        t = re.search(r"total\s*=\s*(\d+)", out)
        if not m or not t or int(t.group(1)) != len(shard):
            return k, None, out
        nums = [int(x) for x in re.findall(r"\d+", m.group(1))]
        return k, [(starts[k] + nums[i], nums[i + 1]) for i in range(0, len(nums), 2)], out

    bad = []
    with ThreadPoolExecutor(max_workers=jobs) as ex:
        for k, r, out in ex.map(run, range(len(shards))):
            if r is None:
                raise Broken("coqc could not judge shard %d of %s:\n%s" % (k, prop, out[-3000:]))
            bad.extend(r)
    for f in os.listdir(CASES):
        if f.startswith("cases_%s_" % prop) and not f.endswith(".v"):
            os.unlink(os.path.join(CASES, f))
    res.checker_cmds.append("coqc -R coq LA build/cases/cases_%s_<k>.v  (%d shards, vm_compute of %s)" % (prop, len(shards), spec["judge"]))
    return sorted(bad)


def load_known():
    p = os.path.join(VERIF, "known_findings.json")
    if not os.path.exists(p):
        return []
    return json.load(open(p))["findings"]


def write_replay(res, body):
    os.makedirs(REPLAYS, exist_ok=True)
    n = len(res.violations)
    path = os.path.join(REPLAYS, "%s-%d-%d.json" % (res.prop, res.seed, n))
    with open(path, "w") as f:
        json.dump(body, f, indent=1, sort_keys=True)
    return path


def violation(res, body, found_input):
    path = write_replay(res, body)
    res.violations.append((path, found_input))
    line = "VIOLATION property=%s replay=%s" % (res.prop, path)
    if not found_input:
        line += " no-failing-input-found"
    print(line, flush=True)


def died(res, e):
    violation(res, {"property": res.prop, "seed": res.seed, "harness": [e.cmd] + e.hargs, "input_announced_by_the_harness": e.announced,
                    "what_happened": e.how, "stderr": e.stderr,
                    "note": "the implementation neither returned a value nor an error on this input: " + e.how +
                            ". Replay: run the harness command; all its choices derive from the seed and the case number."}, True)


def known_finding(res, text):
    if text not in res.known:
        res.known.append(text)
        print("KNOWN-FINDING: property=%s %s" % (res.prop, text), flush=True)


def write_evidence(res, spec, status="ok"):
    os.makedirs(EVIDENCE, exist_ok=True)
    cov = {
        "obligations": res.obligations,
        "discharged": res.discharged,
        "checker_cmd": " ; ".join(res.checker_cmds) or "none run",
        "trusted_base": TRUSTED_BASE + ["axioms reported by Print Assumptions this run: " + ("; ".join(res.axioms) if res.axioms else "none (%d theorems closed under the global context)" % res.closed_lines)] + spec.get("trusted", []),
        "evaluations": res.evaluations,
        "distinct_nontrivial": len(res.nontrivial),
        "traces_validated_against_impl": res.evaluations,
        "rule": spec.get("rule", ""),
        "samples": res.samples[:8] if res.samples else ["(no cases this run)"],
        "input_classes": res.classes,
        "theorems": res.extra.get("theorems", []),
        "known_findings_reported": res.known,
        "status": status,
    }
    cov.update(res.meta)
    if spec.get("exhaustive"):
        cov["exhaustive"] = True
    ev = {
        "property_id": res.prop, "tier": res.tier, "seed": res.seed, "level": "proof",
        "coverage": cov,
        "assumptions": spec.get("assumptions", []),
        "wall_s": round(time.time() - res.t0, 2),
        "violations": len(res.violations),
    }
    with open(os.path.join(EVIDENCE, res.prop + ".json"), "w") as f:
        json.dump(ev, f, indent=1)


def case_key(c):
    return hashlib.sha1(c["coq"].encode()).hexdigest()


def main(specs):
    import argparse
    ap = argparse.ArgumentParser()
    ap.add_argument("prop")
    ap.add_argument("--tier", default=os.environ.get("VERIF_TIER", "quick"), choices=["quick", "thorough"])
    ap.add_argument("--replay")
    ap.add_argument("--nolock", action="store_true")
    a = ap.parse_args()
    seed = int(os.environ.get("VERIF_SEED", "1") or "1")
    if a.prop not in specs:
        print("unknown property", a.prop)
        return 2
    spec = specs[a.prop]
    res = Result(a.prop, a.tier, seed)
    lock = open(os.path.join(VERIF, ".build.lock"), "w")
    fcntl.flock(lock, fcntl.LOCK_EX)
    try:
        rc = run(spec, res, a)
    except Died as e:
        died(res, e)
        write_evidence(res, spec, status="the implementation did not survive an input")
        return 1
    except Broken as e:
        log("BROKEN CHECK:", e)
        write_evidence(res, spec, status="broken: " + str(e)[:500])
        print("CHECK-BROKEN property=%s %s" % (a.prop, str(e).splitlines()[0][:200]))
        return 3
    finally:
        fcntl.flock(lock, fcntl.LOCK_UN)
    return rc


def run(spec, res, a):
    prop = res.prop
    gates()
    # 1. tie, part one: the harness and translator must build against the tree
    ok, out = build_go(res)
    if not ok:
        violation(res, {"property": prop, "broken": "the verif-tagged harness no longer compiles against /repo; the tie between model and code cannot be established",
                        "compiler_output": out[-4000:]}, False)
        write_evidence(res, spec, "harness build failed")
        return 1
    # the translator reads /repo's source text and compiled tables; when the source no longer has the shape it reads (a switch
    # folded into a helper, a table renamed) it fails.  That is a broken tie, not a broken check: the generated files of the
    # last good run stay in place (they describe the code as it was), the theorems and the judge are built against them, and
    # the harness is run to look for an input on which the changed code now differs
    translator_broken = None
    try:
        gen_tables()
    except Broken as e:
        translator_broken = str(e)[-1500:]
        log("translator failed; continuing with the generated files of the last good run:", translator_broken[-300:])
    # 2. theorems re-checked against what the code says now
    targets = spec["targets"]
    ok, mlog, cmd, dt = coq_make(targets + spec.get("judge_targets", []), timeout=spec.get("make_timeout", 1500))
    res.checker_cmds.append(cmd + "  (%.0fs)" % dt)
    thms = []
    for t in targets:
        v = os.path.join(COQ, t[:-1])
        thms += theorem_names(v)
    res.extra["theorems"] = thms
    res.obligations = len(thms) + spec.get("finite_obligations", 0)
    if not ok:
        fails = failing_files(mlog)
        log(mlog[-3000:])
        found = False
        if "diag" in spec:
            found = spec["diag"](spec, res, fails, mlog)
        if not found and "explore" in spec and spec.get("judge_targets"):
            # search for a concrete failing input: the judge (checker + model) may still build although a theorem
            # or a generated-data obligation does not; run the harness against it
            ok2, mlog2, cmd2, dt2 = coq_make(spec["judge_targets"], timeout=spec.get("make_timeout", 1500))
            res.checker_cmds.append(cmd2 + "  (search after a broken obligation, %.0fs)" % dt2)
            if ok2:
                res.extra["broken_proof_obligations"] = [{"file": f, "line": l, "error": e[:600]} for f, l, e in fails]
                try:
                    spec["explore"](spec, res, a)
                except Died as e:
                    died(res, e)
                except Broken as e:
                    log("search after a broken obligation could not run: %s" % e)
                found = any(fi for _, fi in res.violations)
        if not found:
            violation(res, {"property": prop, "broken_proof_obligations": [{"file": f, "line": l, "error": e} for f, l, e in fails] or mlog[-2000:],
                            "note": "a theorem or finite obligation of this property no longer checks against the current tree"}, False)
        write_evidence(res, spec, "proof obligations failed")
        return 1
    if a.tier == "thorough" and spec.get("coqchk", True):
        t = time.time()
        mods = ["LA.Properties." + os.path.basename(x)[:-3] for x in targets]
        rc, out = sh(["coqchk", "-silent", "-o", "-R", COQ, "LA"] + mods, timeout=3000)
        res.checker_cmds.append("coqchk -silent -o -R coq LA %s (%.0fs, rc=%d)" % (" ".join(mods), time.time() - t, rc))
        if rc != 0:
            raise Broken("coqchk failed:\n" + out[-2000:])
        m = re.search(r"Axioms:(.*?)(?:\n\s*\n|\Z)", out, re.S)
        res.extra["coqchk_axioms"] = (m.group(1).strip() if m else "none listed")[:2000]
    names_total, closed_total = 0, 0
    for t in targets:
        names, closed, axioms = print_assumptions_of(os.path.join(COQ, t[:-1]))
        names_total += len(names)
        closed_total += closed
        res.axioms += axioms
    res.closed_lines = closed_total
    allowed = spec.get("allowed_axioms", [])
    for ax in res.axioms:
        for line in ax.splitlines():
            nm = line.strip().split(" ")[0]
            if nm and not line.startswith(" ") and nm not in allowed:
                raise Broken("theorem depends on an axiom that is not declared in the trusted base: " + line.strip())
    res.discharged = res.obligations
    # 3. correspondence and checker on the implementation's observations
    rc = 0
    if "explore" in spec:
        rc = spec["explore"](spec, res, a)
    if translator_broken and not any(fi for _, fi in res.violations):
        violation(res, {"property": prop, "broken": "the translator (harness/cmd/gentables) can no longer read /repo's source as before; the generated part of the model is that of the last good run",
                        "translator_output": translator_broken}, False)
    write_evidence(res, spec, "translator failed" if translator_broken else "ok")
    return 1 if (res.violations or rc) else 0


def standard_explore(spec, res, a, harness_runs):
    """harness_runs: list of (cmd, args).  Each prints case objects
    {"coq":..., "desc":..., "cls":..., "nt": bool} and optional {"meta":{...}}."""
    prop = res.prop
    cases = []
    corpus = os.path.join(VERIF, "corpus", prop)
    for cmd, args in harness_runs:
        t = time.time()
        for o in run_harness(cmd, args, timeout=spec.get("harness_timeout", 3000)):
            if "meta" in o:
                for k, v in o["meta"].items():
                    res.meta[k] = v
            elif "coq" in o:
                o["_cmd"] = [cmd] + args
                cases.append(o)
        log("harness %s %s: %d cases so far (%.1fs)" % (cmd, " ".join(args), len(cases), time.time() - t))
    if not cases:
        raise Broken("harness produced no cases")
    res.evaluations = len(cases)
    for c in cases:
        cls = c.get("cls", "")
        res.classes[cls] = res.classes.get(cls, 0) + 1
        if c.get("nt", True):
            res.nontrivial.add(case_key(c))
    step = max(1, len(cases) // 6)
    res.samples = [c.get("desc") for c in cases[::step]][:8]
    t = time.time()
    bad = judge_cases(prop, spec, cases, res, shard_size=spec.get("shard", 200))
    log("judged %d cases in %.1fs: %d flagged" % (len(cases), time.time() - t, len(bad)))
    known = {(k["property"], k.get("class")): k for k in load_known()}
    mism = []
    discard = set(spec.get("discard_codes", []))
    res.meta["discarded_ambiguous"] = sum(1 for _, code in bad if code in discard)
    for idx, code in bad:
        if code in discard:
            continue
        c = cases[idx]
        body = {"property": prop, "case_index": idx, "seed": res.seed, "harness": c["_cmd"], "case": c.get("desc"), "coq_case": c["coq"][:20000], "verdict_code": code}
        if code == 1:
            mism.append((idx, body))
        elif code >= 100:
            k = known.get((prop, code))
            if k and k.get("kind") == "known":
                known_finding(res, k["text"])
            else:
                body["what"] = "checker rejects the implementation's observation (class %d, not listed as a known finding)" % code
                if len(res.violations) < 5:
                    violation(res, body, True)
        else:
            body["what"] = spec.get("codes", {}).get(code, "the checker of the property rejects the implementation's observation on this input")
            if len(res.violations) < 5:
                violation(res, body, True)
    if mism and not res.violations:
        idx, body = mism[0]
        body["what"] = ("correspondence broken: the model and the implementation differ on this input, but the property's checker accepts what the "
                        "implementation did on all %d inputs explored; the theorems no longer speak about this code (correspondence %s)" % (len(cases), spec["judge"]))
        body["disagreements"] = len(mism)
        violation(res, body, False)
    res.meta["model_impl_disagreements"] = len(mism)
    return 1 if res.violations else 0
