# Per-property specifications for lib/vcheck.py.
import os
import re
import vcheck as V

HINTS_C20 = {
    "errno_names": "auparse.AuditErrnoToName[n] = s but auparse.AuditErrnoToNum[s] != n",
    "errno_nums": "auparse.AuditErrnoToNum[s] = n but AuditErrnoToName[n] does not map back to n",
    "arch_nodup": "two entries of auparse.AuditArchNames share a name or a code",
    "arch_fwd": "auparse.AuditArchNames[c] = s but the rule package resolves -F arch=s to another code",
    "arch_rev": "rule: arch name s resolves to code c but auparse.AuditArchNames[c] != s",
    "syscall_dups": "auparse.AuditSyscalls[arch]: one name has two numbers",
    "syscall_fwd": "auparse.AuditSyscalls[arch][n] = name but rule -S name on that arch resolves to another number",
    "syscall_rev": "rule reverse syscall table entry (arch,name,n) but auparse.AuditSyscalls[arch][n] != name",
    "syscall_arches": "an arch has a syscall table in one package and not in the other",
    "ops_fwd": "rule operator text -> code -> text is not the identity",
    "ops_rev": "rule operator code -> text -> code is not the identity",
    "fields_fwd": "rule field name -> code -> name is not the identity (rule.Build then rule.ToCommandLine changes the field)",
    "fields_rev": "rule field code -> name -> code is not the identity",
    "comparisons_sym": "-C a=b and -C b=a encode differently",
    "comparisons_rev_missing": "a comparison code has no reverse entry: ToCommandLine fails on a rule Build accepted",
    "comparisons_rev": "reverse comparison entry does not re-encode to its code",
    "comparison_fields": "a comparison operand has no field name",
    "norm_record_types": "aucoalesce normalizations.yaml names a record type AuditMessageType.String() never produces",
    "norm_syscalls": "aucoalesce normalizations.yaml names a syscall that is in no auparse.AuditSyscalls table",
    "norm_syscalls_nodup": "a syscall is registered for two normalisations",
    "norm_record_types_nodup": "a record type is registered twice",
    "norm_has_fields": "two normalisations without has_fields for one record type (selection depends on order)",
    "event_types_total": "GetAuditEventType is not total over 0..65535",
    "event_types_repeatable": "GetAuditEventType answered differently on a second pass",
}


def diag_c20(spec, res, fails, mlog):
    """Evaluate every finite obligation to its offending entries."""
    ok, out, _, _ = V.coq_make(["Model/Tables.vo"], timeout=600)
    if not ok:
        return False
    rc, out = V.sh(["coqc", "-R", V.COQ, "LA", "-w", "-notation-overridden,-deprecated", "-o", os.path.join(V.CASES, "C20.vo"),
                    os.path.join(V.COQ, "Diag", "C20.v")], timeout=600)
    found = False
    for m in re.finditer(r"D_(\w+) =\s*(.*?)\n\s*: ", out, re.S):
        name, val = m.group(1), " ".join(m.group(2).split())
        if val in ("[]", "true"):
            continue
        found = True
        V.violation(res, {"property": "C20", "obligation": name, "offending_entries": val[:3000],
                          "how_to_observe": HINTS_C20.get(name, ""), "source": "tables dumped from the compiled /repo by gentables on this run"}, True)
    failed_files = [f for f, _, _ in fails]
    if not found and any("MsgType" in f for f in failed_files):
        # the 65536-type sweeps: the harness finds the failing types through the API
        cases = V.run_harness("h_tables", ["-all"])
        cases = [c for c in cases if "coq" in c]
        bad = V.judge_cases("C20", spec, cases, res, shard_size=2000)
        for idx, code in bad[:3]:
            if code == 2:
                found = True
                V.violation(res, {"property": "C20", "case": cases[idx]["desc"], "what": "record type does not convert to a name and back"}, True)
    return found


def explore_c20(spec, res, a):
    args = ["-seed", str(res.seed)]
    if a.tier == "thorough":
        args.append("-all")
    return V.standard_explore(spec, res, a, [("h_tables", args)])


def explore_reasm(spec, res, a):
    n = 1500 if a.tier == "quick" else 40000
    return V.standard_explore(spec, res, a, [("h_reasm", ["-seed", str(res.seed), "-n", str(n)])])


REASM_RULE = ("histories of 5..45 calls (PushMessage, Push(raw), nil and malformed pushes, Maintain, Close incl. mid-history and repeated) generated from one splitmix64 state per case: "
              "window base in {0,1,2,2^32-41..2^32-1,2^31,2^24-2,2^24,random}, spread in {8,30,1000,2^24-1}, duplicates, late arrivals, gaps, "
              "record types across the completion boundaries (1299/1300, 2099/2100, PROCTITLE, EOE), maxInFlight in {0,1,2,3,5,11,40}, "
              "timeouts in {-1s,0,30ms (with real 70ms sleeps),1h}; 'hostile' and 'restart' streams draw sequences from all of uint32 (maxInFlight <= 11 so that Go's sort is the insertion sort the model has). "
              "non-trivial = at least two callbacks were made; distinct by the whole case term")
REASM_ASSUME = ["clock readings of the implementation lie between the harness's stamps taken before and after each call; a case whose expiry comparisons are not decided by the stamps is discarded (counted in coverage.discarded_ambiguous)",
                "sort.Sort on at most 12 elements is insertion sort (Go runtime); beyond 12 elements only the fact that it returns the sorted permutation under a strict total order is used (windowed streams)"]


def reasm_spec(pid, judge, thm_file, extra_rule=""):
    return dict(targets=["Properties/%s.vo" % pid], judge_targets=["Check/ChkReasm.vo"],
                imports="Require Import Reassembler ChkReasm.\nLocal Open Scope Z_scope.",
                case_type="rcase", judge=judge, shard=100, explore=explore_reasm,
                discard_codes=[50], rule=REASM_RULE + extra_rule, assumptions=REASM_ASSUME)


SPECS = {
    "C20": dict(
        targets=["Properties/C20.vo"], judge_targets=["Check/ChkC20.vo"],
        imports="Require Import Bytes Tables ChkC20.",
        case_type="c20case", judge="judge_c20",
        shard=150,
        diag=diag_c20, explore=explore_c20,
        finite_obligations=26,
        exhaustive=True,
        rule="proof obligations: every entry of every generated table and all 65536 record types, enumerated completely by vm_compute inside the kernel (exhaustive). "
             "cases: record types (all named ones, boundaries, random; all 65536 in the thorough tier) and odd spellings driven through the auparse API and compared with the model; "
             "non-trivial = the conversion succeeded; distinct by the case term",
        assumptions=["gentables dumps the runtime tables of the same compiled code the library users get",
                     "reverseComparisonsTable is compared as an unordered pair per code (its operand order depends on Go map iteration; both orders are proved to re-encode to the code)"],
    ),
    "C01": reasm_spec("C01", "judge_c01", "C01"),
    "C02": reasm_spec("C02", "judge_c02", "C02"),
    "C03": reasm_spec("C03", "judge_c03", "C03"),
    "C10": reasm_spec("C10", "judge_c10", "C10"),
    "C19": reasm_spec("C19", "judge_c19", "C19"),
    "C08": None, "C16": None, "C17": None,
    "C11": dict(targets=["Properties/C11.vo"], judge_targets=["Check/ChkC11.vo"],
                imports="Require Import Reassembler ReasmConc ChkC11.\nLocal Open Scope Z_scope.",
                case_type="ccase", judge="judge_c11", shard=40, explore=lambda spec, res, a: explore_c11(spec, res, a),
                rule="programs of 2-3 threads x 1-3 calls (PushMessage, Maintain, Close) with 0-2 re-entrant callback entries, maxInFlight in {0,1,2,5}, timeout 1h or -1s, "
                     "each run under one forced schedule (random with bursts, then drained round-robin) at the granularity of the verif yield points; the model is run on the same schedule and must produce the same callbacks and return values in the same order. "
                     "non-trivial = more than four observable events; distinct by case term",
                assumptions=["sync.Mutex and sync/atomic behave as atomic steps (forced schedules serialise the goroutines between yield points)",
                             "data-race freedom is a runtime fact: supported by a race-detector run in the thorough tier, not proved"]),
}


def explore_c11(spec, res, a):
    n = 600 if a.tier == "quick" else 20000
    rc = V.standard_explore(spec, res, a, [("h_conc", ["-seed", str(res.seed), "-n", str(n), "-stress", str(n), "-storm", str(n), "-late", str(min(4 * n, 20000))])])
    rc |= V.race_run(res, "h_conc", ["-seed", str(res.seed), "-n", "0", "-stress", "300" if a.tier == "quick" else "5000", "-storm", "20" if a.tier == "quick" else "300"])
    return rc


def explore_client(spec, res, a):
    n = 1500 if a.tier == "quick" else 40000
    return V.standard_explore(spec, res, a, [("h_client", ["-seed", str(res.seed), "-n", str(n), "-storm", "100" if a.tier == "quick" else "2000"])])


CLIENT_RULE = ("histories of 1..7 AuditClient calls (GetStatus, GetRules, AddRule, DeleteRule, DeleteRules, every Set* in both wait modes, SetPID, WaitForPendingACKs, Close, Receive) against a simulated kernel behind the exported Netlink field; "
               "the kernel script answers each request after 0..2 noise blocks (unsolicited sequence-0 records, 1..3 or exactly 9 transient EINTR/EAGAIN failures), with errno from {0,1,2,11,13,17,22,105,4095,-3}; "
               "a 'hostile' fifth of the cases adds foreign sequence numbers, short ACK payloads, non-ACK types, hard receive errors, 10 transient failures in a row, wrong reply types; 4% of sends fail; status replies of 0..60 bytes; "
               "the simulated kernel reuses one receive buffer and rule data is read back after the whole history; 100 concurrent-Close storms; FromWireFormat on every buffer length 0..80. "
               "non-trivial = the script has more than two entries; distinct by case term")


def client_spec(pid, judge):
    return dict(targets=["Properties/%s.vo" % pid], judge_targets=["Check/ChkClient.vo"],
                imports="Require Import Bytes AuditClient ChkClient.", case_type="kcase", judge=judge, shard=100, explore=explore_client,
                rule=CLIENT_RULE,
                assumptions=["the kernel is simulated through the exported Netlink field (never contacted); Go errors are mapped to the model's error classes by errors.As(syscall.Errno) and message prefixes",
                             "EAGAIN is kept to at most three per case because each costs a real 50 ms sleep in getReply"])


SPECS["C08"] = client_spec("C08", "judge_c08")
SPECS["C16"] = client_spec("C16", "judge_c16")
SPECS["C17"] = client_spec("C17", "judge_c17")


def explore_c18(spec, res, a):
    return V.standard_explore(spec, res, a, [("h_netlink", ["-seed", str(res.seed), "-n", "10" if a.tier == "quick" else "600"])])


SPECS["C18"] = dict(targets=["Properties/C18.vo"], judge_targets=["Check/ChkC18.vo"],
                    imports="Require Import Bytes Mach Netlink ChkC18.", case_type="ncase", judge="judge_c18", shard=60, explore=explore_c18,
                    rule="serialize for every payload length 0..64 and sampled lengths up to 8970 with random type/flags/seq/pid; the audit message parser on every buffer length 0..80; "
                         "NetlinkClient.Send over a live NETLINK_ROUTE socket (the kernel quotes each rejected request verbatim: header and payload compared with the returned sequence number and the socket's port id); "
                         "Receive of datagrams of every length 0..64 unicast from a second user-space NETLINK_USERSOCK socket (must be an error, never data), Receive of kernel replies; 8 goroutines x 200 concurrent Sends. "
                         "Live-socket parts are skipped (and recorded) when the sandbox has no netlink. non-trivial = non-empty payload / buffer of at least a header; distinct by case term",
                    assumptions=["the kernel stamps its own datagrams with port 0 and user-space ones with the sender's port (runtime fact, observed on live sockets)",
                                 "atomic.AddUint32 is an atomic step"])


def explore_rule(mode):
    def f(spec, res, a):
        n = {"build": 700, "total": 900, "flags": 1500}[mode] if a.tier == "quick" else {"build": 15000, "total": 20000, "flags": 40000}[mode]
        return V.standard_explore(spec, res, a, [("h_rule", ["-mode", mode, "-seed", str(res.seed), "-n", str(n)])])
    return f


RULE_RULE = ("structured auditctl-style rules generated from one splitmix64 state per case: list in {exit,task,user,exclude} x action, 0..5 (sometimes 60..67) filters over every field class "
             "(numeric with decimal/hex/octal/binary/underscore/negative spellings and boundary values, uid/gid incl. unset and negative, exit codes by number and errno name, msgtype by name and number, strings, arch, perm, filetype, -C comparisons), "
             "all 8 operators, syscalls by number 0..2047 (and beyond) and by name on the arch in force, 'all', 0..3 keys, file watches on a scratch file / directory / missing path; one sixth deliberately inadmissible. "
             "plus watch-shaped syscall rules (path/dir + perm [+ key]) with clean, unclean, relative and root paths, empty keys, explicit syscall sets 0..2015(+), "
             "one '-F field=text' rule per value spelling (valid spellings and ~60 hostile ones) whose value word is read back from the built bytes, and the tokens of every other line through the model of Parse + Build. "
             "Half of the rules are preceded by a near copy that is built and listed (history independence). "
             "Each line goes through flags.Parse and rule.Build; accepted rules go on through ToCommandLine -> Parse -> Build -> ToCommandLine, and the model's own text must equal the implementation's and rebuild to the bytes. non-trivial = accepted with at least one filter; distinct by case term")


def rule_spec(pid, judge, mode, case_type, rule_text):
    return dict(targets=["Properties/%s.vo" % pid], judge_targets=["Check/ChkRule.vo"],
                imports="Require Import Bytes RuleEncode ChkRule.\nLocal Open Scope string_scope.", case_type=case_type, judge=judge, shard=40, explore=explore_rule(mode),
                rule=rule_text,
                assumptions=["os.Stat, runtime.GOARCH and the user database are oracles: the generator uses a scratch file/directory, numeric ids and the sandbox architecture",
                             "text spellings of numeric values are produced by the generator from the number (the generator is the oracle for text -> value)"])


SPECS["C06"] = rule_spec("C06", "judge_c06", "build", "bcase", RULE_RULE)
SPECS["C07"] = rule_spec("C07", "judge_c07", "build", "bcase", RULE_RULE)
SPECS["C13"] = rule_spec("C13", "judge_c13", "total", "tcase",
    "wire data: valid rules with one 32-bit header word replaced by {0,1,63,64,65,2^31-1,2^31,2^32-1,len,len+-1} (half of them at the count/buflen/first value and field words), truncations, two words at once, random buffers around 1040 bytes; "
    "Rule values with 0..200 filters, syscall strings 2047/2048/2079/2080/2^31/2^32-1/-1/overflowing, odd list/action/key/path strings; arbitrary lines spliced from flag fragments and quote characters. "
    "A recovered panic or an allocation above 64 MiB in one call is a violation. non-trivial = the call returned (ok or error); distinct by case term")

SPECS["C14"] = dict(targets=["Properties/C14.vo"], judge_targets=["Check/ChkFlags.vo"],
                    imports="Require Import Bytes Flags ChkFlags.\nLocal Open Scope string_scope.", case_type="fcase", judge="judge_c14", shard=100, explore=explore_rule("flags"),
                    rule="lines rendered from item lists (flag + value in the forms -x v, -x=v, --x v, --x=v; -D; stray words; the -- terminator) for syscall-shaped, watch-shaped, delete and arbitrary flag mixes, "
                         "with values containing blanks, tabs, newlines, '=' signs, operator characters, leading junk, empty strings, repeated single-valued flags, -a/-A present 0/1/2 times, shuffled order; "
                         "each line is kept only if shellquote.Split gives back exactly the tokens. The returned rule.Rule (type, list, action, every filter's kind/lhs/comparator/rhs, syscalls, path, permissions, keys) is compared. "
                         "non-trivial = the line was accepted; distinct by case term",
                    assumptions=["shellquote.Split is outside the model (checked per case to return the generated tokens)",
                                 "regexp (RE2) is modelled by hand-written scanners for the two patterns; their source text is pinned through Gen/RegexPins.v"])


def explore_parse(modes):
    def f(spec, res, a):
        runs = []
        for mode, nq, nt in modes:
            runs.append(("h_parse", ["-mode", mode, "-seed", str(res.seed), "-n", str(nq if a.tier == "quick" else nt)]))
        return V.standard_explore(spec, res, a, runs)
    return f


def parse_spec(pid, judge, case_type, modes, rule_text):
    return dict(targets=["Properties/%s.vo" % pid], judge_targets=["Check/ChkParse.vo"],
                imports="Require Import Bytes Parser ChkParse.", case_type=case_type, judge=judge, shard=80, explore=explore_parse(modes), rule=rule_text,
                assumptions=["regexp (RE2), strconv, strings.TrimSpace/Fields/ToLower, net.IP.String and unix.SignalName are modelled by hand-written Gallina functions (or a generated table) and tied only by this correspondence",
                             "the expected @timestamp text and IPv6 text are produced by Go's own time and net packages from the generated numbers"])


SPECS["C04"] = parse_spec("C04", "judge_c04", "hcase", [("header", 2500, 60000)],
    "log lines type=T msg=audit(S.mmm:N)<sep>body for named and unnamed record types (half each), S in [0,2^34) with boundaries, mmm 000-999, N over uint32 with boundaries, hostile bodies (msg=, parentheses, colons, the well-known key names, quotes), "
    "upper/lower-case type names, padding; 20% truncated inside the header or with one header byte damaged, 10% with signed / zero-padded / overflowing numerals, 10% without msg= or with a short type part. "
    "ParseLogLine and Parse are both called. non-trivial = a message was returned; distinct by case term")
SPECS["C12"] = parse_spec("C12", "judge_c12", "dcase", [("data", 2500, 60000)],
    "records written the way the kernel writes them (safe strings quoted, others upper-case hex) for SYSCALL, PATH, CWD, EXECVE, PROCTITLE (NUL-separated), SOCKADDR (IPv4, IPv6 incl. mapped and compressible addresses, unix), USER_CMD, TTY/USER_TTY, USER_LOGIN and plain types; "
    "values drawn from five byte classes (path-like, printable, any byte 0x01-0xFF, quote/backslash/space-heavy, hex-looking) subject to the property's exclusions; placeholders ?, ?,, (null), empty; derived fields result/auid/ses/exit/arch/syscall. "
    "non-trivial = Data() succeeded; distinct by case term")
SPECS["C05"] = parse_spec("C05", "judge_c05", "dcase", [("fuzz", 2500, 100000), ("data", 800, 20000)],
    "text spliced from ~60 fragments (keys of every enrichment path with valid, malformed and extreme values, quotes, backslashes, the AVC/LOGIN/CRED_DISP peculiarities, huge argc) behind six header variants, for each specially handled record type and random types; plus the kernel-encoded records of C12. "
    "Each message: Data, Tags, ToMapStr twice (must be equal), under recover() and a 5 s deadline. non-trivial = Data() succeeded; distinct by case term")


def explore_c09(spec, res, a):
    n = 1500 if a.tier == "quick" else 40000
    return V.standard_explore(spec, res, a, [("h_coalesce", ["-mode", "events", "-seed", str(res.seed), "-n", str(n)]), ("h_coalesce", ["-mode", "modes"])])


def explore_c15(spec, res, a):
    n = 1500 if a.tier == "quick" else 40000
    rc = V.standard_explore(spec, res, a, [("h_coalesce", ["-mode", "events", "-seed", str(res.seed), "-n", str(n)]),
                                           ("h_coalesce", ["-mode", "cache", "-seed", str(res.seed), "-n", "400" if a.tier == "quick" else "6000"])])
    rc |= V.race_run(res, "h_coalesce", ["-mode", "race", "-seed", str(res.seed), "-n", "300" if a.tier == "quick" else "20000"])
    return rc


COAL_RULE = ("record groups parsed from generated text: empty and EOE-only groups, single records of ~15 named and random types, SYSCALL groups with any subset and (one third) any order of CWD, PATH x n (all name types, seven mode classes and an unparsable mode), "
             "EXECVE (argc consistent, too large, non-numeric), SOCKADDR (IPv4, IPv6, unix, netlink, too short), PROCTITLE, AVC/other records, a special record in front, groups without SYSCALL; extra fields drawn from a pool that collides across records "
             "(pid, uid, exe, cwd, addr, items, socket_addr, argc, a0, result, ses, subj_user, ...); records without data content; a SYSCALL record whose Data() fails next to records carrying an items key; "
             "every record type that has a normalisation of its own in front of SYSCALL records of three different syscalls back to back (the model of applyNormalization must predict summary, ECS category/type and file object). Each group is coalesced three times with snapshots of every input's Data/Tags/ToMapStr before and after, "
             "ResolveIDs with hard-coded users on a returned event whose ECS slices are then mutated, and the last 8 events of the run are re-compared after every later call. non-trivial = an event was returned; distinct by case term")
SPECS["C09"] = dict(targets=["Properties/C09.vo"], judge_targets=["Check/ChkNorm.vo"], imports="Require Import Bytes Parser ChkCoalesce ChkNorm.\nLocal Open Scope string_scope.", case_type="ecase", judge="judge_c09n",
                    shard=2500, explore=explore_c09, exhaustive=True,
                    rule=COAL_RULE + "; plus ALL 65536 st_mode values on the selected PATH record (exhaustive)",
                    assumptions=["records enter the checker as what AuditMessage.Data()/Tags() returned for them (the parser is covered by C04/C05/C12)",
                                 "the event is observed through its JSON form (all exported fields) plus Event.Warnings"])
SPECS["C15"] = dict(targets=["Properties/C15.vo"], judge_targets=["Check/ChkCoalesce.vo"], imports="Require Import Bytes Parser IdCache ChkCache ChkCoalesce.", case_type="ecase", judge="judge_c15",
                    shard=150, explore=explore_c15, rule=COAL_RULE,
                    assumptions=["equality of snapshots / events is computed by the harness with reflect.DeepEqual on canonical dumps",
                                 "data-race freedom is a runtime fact: supported by a race-detector run (16 goroutines, each coalescing and resolving its own events, sharing the package tables and ID caches), not proved"])
