#!/bin/bash
# tools/confirm_seed.sh <dir-name under /tmp/wt> <prop-id> [seed-name]
# Confirms in the scratch worktree that the seeded change compiles, passes the
# existing suite, and that the demonstration fails with it and passes without.
set -u
wt=/tmp/wt/$1; pid=$2; name=${3:-$1}
export GOFLAGS=-mod=mod GOPROXY=off GOSUMDB=off GOTOOLCHAIN=local
cd $wt || exit 1
demo=$(git status --porcelain | grep '^??' | awk '{print $2}' | grep -v '^_seed' )
echo "demo files: $demo"
mkdir -p /tmp/wt/_hold_$1
# 1. original tree + demo must pass
git stash -q 2>/dev/null; git checkout -q -- . 2>/dev/null
git apply -R --check _seed/patch.diff 2>/dev/null && git apply -R _seed/patch.diff
git diff --quiet || { echo "tree not clean"; git status --short; }
orig_ok=1
for d in $demo; do pk=./$(dirname $d); timeout 600 go test -vet=off -count=1 -timeout 5m -run 'Seed|Demo' $pk > /tmp/wt/_hold_$1/orig.log 2>&1 || orig_ok=0; done
echo "demo on original: $( [ $orig_ok = 1 ] && echo PASS || echo FAIL )"
# 2. patched tree: build, demo must fail
git apply _seed/patch.diff || { echo "patch does not apply"; exit 1; }
timeout 600 go build ./... && echo "build ok"
mut_fail=0
for d in $demo; do pk=./$(dirname $d); timeout 600 go test -vet=off -count=1 -timeout 5m -run 'Seed|Demo' $pk > /tmp/wt/_hold_$1/mut.log 2>&1 || mut_fail=1; done
echo "demo on patched: $( [ $mut_fail = 1 ] && echo FAIL-as-expected || echo PASS-unexpected )"
# 3. existing suite on patched tree without the demo
for d in $demo; do mkdir -p /tmp/wt/_hold_$1/$(dirname $d); mv $d /tmp/wt/_hold_$1/$d; done
timeout 1500 go test -vet=off -count=1 -timeout 20m ./... > /tmp/wt/_hold_$1/suite.log 2>&1; suite=$?
grep -v "^ok\|no test files" /tmp/wt/_hold_$1/suite.log | head -5
echo "existing suite on patched: rc=$suite"
for d in $demo; do mv /tmp/wt/_hold_$1/$d $d; done
if [ $orig_ok = 1 ] && [ $mut_fail = 1 ] && [ $suite = 0 ]; then
  mkdir -p /verif/seeded/$name
  cp _seed/patch.diff /verif/seeded/$name/patch.diff
  for d in $demo; do cp $d /verif/seeded/$name/$(basename $d); done
  cp _seed/notes.txt /verif/seeded/$name/notes.txt 2>/dev/null
  echo "$demo" > /verif/seeded/$name/demo_paths.txt
  echo CONFIRMED
else
  echo NOT-CONFIRMED
fi
