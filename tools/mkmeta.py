#!/usr/bin/env python3
# tools/mkmeta.py <seed> <property> <detected_by comma list> <needs text>
import json, sys, os
name, prop, det, needs = sys.argv[1], sys.argv[2], sys.argv[3], sys.argv[4]
d = '/verif/seeded/' + name
demo = open(d + '/demo_paths.txt').read().split()
meta = {
  "breaks_property": prop,
  "needs_to_manifest": needs,
  "demonstration": {"files": [os.path.basename(x) for x in demo], "place_at": demo,
                    "run": "go test -vet=off -count=1 -run 'Seed|Demo' ./" + (os.path.dirname(demo[0]) or '.')},
  "confirmed_by": "tools/confirm_seed.sh in a scratch worktree: go build ./... ok; existing suite (go test -vet=off -count=1 ./...) passes with the patch; demonstration passes on the original tree and fails with the patch",
  "checks_run": "tools/try_seed.sh %s %s  (git -C /repo apply patch.diff; bin/check <id>; git -C /repo checkout -- .)" % (name, det.replace(',', ' ')),
  "detected_by": det.split(','),
}
json.dump(meta, open(d + '/meta.json', 'w'), indent=1)
