#!/bin/bash
# re-run every stored seed against the property checks that are supposed to detect it
export GOFLAGS=-mod=mod GOPROXY=off GOSUMDB=off GOTOOLCHAIN=local
cd /verif
for d in seeded/*/; do
  name=$(basename $d)
  props=$(python3 -c "import json;print(' '.join(json.load(open('$d/meta.json')).get('detected_by',[])))" 2>/dev/null)
  [ -z "$props" ] && props=$(echo $name | cut -c1-3)
  git -C /repo apply /verif/$d/patch.diff || { echo "$name APPLY-FAILED"; git -C /repo checkout -- .; continue; }
  for p in $props; do
    out=$(timeout 1800 bin/check $p --tier quick 2>/dev/null | grep -E "VIOLATION|BROKEN" | head -2 | tr '\n' ' ')
    rc=$?
    nf=$(echo "$out" | grep -c "no-failing-input-found")
    echo "$name $p viol=$(echo "$out" | grep -c VIOLATION) nofail=$nf :: $(echo $out | cut -c1-150)"
  done
  git -C /repo checkout -- .
done
git -C /repo status --short | head -3
cd /verif && git checkout evidence
echo DONE
