#!/usr/bin/env python3
# prints the prompt given to a mutation-seeding sub-agent for one property
import json, sys
pid = sys.argv[1]
for l in open('/verif/properties.jsonl'):
    p = json.loads(l)
    if p['id'] == pid:
        break
print(f"""You are helping to evaluate a verification setup for the Go library elastic/go-libaudit (Linux audit subsystem: netlink client, audit log parser, rule encoder/decoder, event reassembler and coalescer).

You have your own scratch git worktree of the repository at /tmp/wt/{pid} . Work ONLY inside that directory. Do not read or write /repo or /verif at all.

Every shell command that runs Go must start with:
  export GOFLAGS=-mod=mod GOPROXY=off GOSUMDB=off GOTOOLCHAIN=local
(the sandbox has no network). Always give `go test` a -timeout and run shell commands with a timeout.

Here is a semantic property the library is supposed to satisfy:

  Title: {p['title']}
  Statement: {p['statement']}
  Quantified over: {p['quantifier']['text']}
  Relevant files: {', '.join(p['anchors']['files'])}

Your task: produce ONE realistic change (a "seeded bug") to the library's non-test source code in your worktree that BREAKS this property, while
  (a) the library still compiles (`go build ./...`), and
  (b) the EXISTING test suite still passes unchanged: `go test -vet=off -count=1 -timeout 20m ./...` from the worktree root (do not edit, delete or add to existing *_test.go files or testdata), and
  (c) the bug needs something SPECIFIC to manifest - a particular interleaving, a fault at a particular point, a multi-step sequence of operations, an unusual or boundary input, or two cooperating code sites that each look fine alone. Not something ordinary use would expose at once. It should look like a plausible refactoring slip, optimisation or off-by-one a real developer could commit, not sabotage; keep it small (a few lines). Do not touch files named verif_*.go or the verifYield(...) calls.

Also write a demonstration: a NEW Go test file (e.g. seed_demo_test.go in the relevant package directory) or a small program, that FAILS with your change and PASSES on the original code (verify both: use `git stash` / `git diff > patch; git checkout .` etc. inside your worktree to get back to the original, then re-apply).

Deliverables, all inside /tmp/wt/{pid}/_seed/ :
  - patch.diff   : `git diff` of the library change only (not including the demo), applicable with `git apply` from the repository root
  - the demonstration file(s) (copy), plus a line in notes.txt saying where in the tree it must be placed and the exact command to run it
  - notes.txt    : which clause of the property breaks, what specific trigger is needed, and what you ran to confirm (a) (b) (c) and the demo failing/passing.
Leave the worktree with the patch applied and the demo file in place. Report back a short summary (what you changed, trigger, commands run and their outcomes).""")
