#!/bin/bash
# tools/try_seed.sh <seed-name> <prop>...   apply the seeded patch to /repo, run the checks, undo.
name=$1; shift
cd /repo && git apply /verif/seeded/$name/patch.diff || exit 1
for p in "$@"; do (cd /verif && timeout 1500 bin/check $p 2>/dev/null | grep -E "VIOLATION|KNOWN|BROKEN" | head -3; echo "$p rc=${PIPESTATUS[0]}"); done
git -C /repo checkout -- .
cd /verif && git status --short evidence | head -2
