#!/usr/bin/env python3
"""tools/mutate_obs.py <Cxx> <harness> <args...>   - which parts of a case does the judge actually look at?

Runs the harness on the unchanged tree, keeps cases the judge accepts (verdict 0), changes ONE token of each
case term (a number, one hex digit of a byte string, a boolean) and judges the changed terms.  A changed term
that is still accepted points at something neither the checker nor the model comparison reads: an input the
property does not depend on (clock stamps inside their tolerance, payload of skipped records) - or a blind spot.
Output: accepted mutants grouped by the text in front of the changed token.  Diagnostic tool, not a check."""
import sys, os, re, random, json, collections
sys.path.insert(0, os.path.join(os.path.dirname(os.path.abspath(__file__)), "..", "lib"))
import vcheck, props

def tokens(term):
    out = []
    for m in re.finditer(r'hx "([0-9a-fA-F]*)"', term):
        if m.group(1):
            out.append(("hx", m.start(1), m.end(1)))
    masked = re.sub(r'"[^"]*"', lambda m: "\x00" * len(m.group(0)), term)
    for m in re.finditer(r'(?<![\w.])\d+(?![\w.])', masked):
        out.append(("num", m.start(), m.end()))
    for m in re.finditer(r'\b(true|false)\b', masked):
        out.append(("bool", m.start(), m.end()))
    return out

def mutate(term, rnd):
    toks = tokens(term)
    if not toks:
        return None
    kind, a, b = rnd.choice(toks)
    old = term[a:b]
    if kind == "hx":
        i = rnd.randrange(len(old))
        new = old[:i] + rnd.choice([c for c in "0123456789abcdef" if c != old[i].lower()]) + old[i + 1:]
    elif kind == "num":
        v = int(old)
        new = str(rnd.choice([v + 1, max(0, v - 1) if v > 0 else v + 2, v ^ (1 << rnd.randrange(0, 12)), v * 2 + 1]))
        if new == old:
            new = str(v + 3)
    else:
        new = "false" if old == "true" else "true"
    ctx = re.sub(r"\s+", " ", term[max(0, a - 48):a])[-48:]
    ctx = re.sub(r'hx "[0-9a-f]*"', 'hx ".."', ctx)
    ctx = re.sub(r"\d+", "N", ctx)
    return term[:a] + new + term[b:], kind, ctx

def main():
    prop, cmd, args = sys.argv[1], sys.argv[2], sys.argv[3:]
    spec = props.SPECS[prop]
    K = int(os.environ.get("MUT_CASES", "60"))
    M = int(os.environ.get("MUT_PER_CASE", "12"))
    rnd = random.Random(7)
    cases = [o for o in vcheck.run_harness(cmd, args) if "coq" in o]
    res = vcheck.Result(prop, 1, "quick") if hasattr(vcheck, "Result") else None
    class R: checker_cmds = []
    bad = dict(vcheck.judge_cases("MUT" + prop, spec, cases, R(), shard_size=spec.get("shard", 200)))
    good = [c for i, c in enumerate(cases) if i not in bad and re.search(os.environ.get("MUT_ONLY", "."), c["coq"])]
    rnd.shuffle(good)
    good = good[:K]
    muts = []
    for c in good:
        for _ in range(M):
            m = mutate(c["coq"], rnd)
            if m:
                muts.append({"coq": m[0], "kind": m[1], "ctx": m[2]})
    try:
        badm = dict(vcheck.judge_cases("MUT" + prop, spec, muts, R(), shard_size=max(20, spec.get("shard", 200) // 2)))
    except vcheck.Broken as e:
        print("some mutants do not type-check; judging one by one is not implemented:", str(e)[:300])
        return
    acc = collections.Counter()
    tot = collections.Counter()
    for i, m in enumerate(muts):
        key = (m["kind"], m["ctx"][-34:])
        tot[key] += 1
        if i not in badm:
            acc[key] += 1
    if os.environ.get("MUT_DUMP"):
        with open(os.environ["MUT_DUMP"], "w") as f:
            for i, m in enumerate(muts):
                if i not in badm:
                    f.write(m["kind"] + " | " + m["ctx"] + " | " + m["coq"][:1500] + "\n")
    print("%s: %d accepted cases, %d mutants, %d still accepted" % (prop, len(good), len(muts), sum(acc.values())))
    for key, n in acc.most_common(40):
        print("  %3d/%-3d %-4s ...%s" % (n, tot[key], key[0], key[1]))

main()
