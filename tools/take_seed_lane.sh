#!/bin/bash
# tools/take_seed.sh <worktree name under /tmp/wt> <property> <seed name>
# confirm a sub-agent's seeded change in its scratch worktree, store it under seeded/<seed name>, run the property's check against it
set -u
wt=$1; pid=$2; name=$3
/verif/tools/confirm_seed.sh $wt $pid $name 2>&1 | tail -6
d=/verif/seeded/$name; mkdir -p $d
cp /tmp/wt/$wt/_seed/patch.diff $d/patch.diff
cp /tmp/wt/$wt/_seed/notes.txt $d/notes.txt 2>/dev/null
( cd /tmp/wt/$wt && git status --porcelain | grep '^??' | awk '{print $2}' | grep -v '^_seed' ) > $d/demo_paths.txt
for f in $(cat $d/demo_paths.txt); do cp /tmp/wt/$wt/$f $d/; done
echo "--- check $pid against seed $name"
/verif/tools/try_seed_lane.sh $name $pid
