#!/bin/bash
# tools/try_seed_lane.sh <seed-name> <prop>...   like try_seed.sh, but on a private clone of /repo and a private copy of /verif
# (so that /repo stays untouched while other jobs - the thorough tier - read it)
export GOFLAGS=-mod=mod GOPROXY=off GOSUMDB=off GOTOOLCHAIN=local
name=$1; shift
L=/tmp/w/lane1
mkdir -p $L
[ -d $L/repo ] || git clone -q /repo $L/repo
rsync -a --delete --exclude .git --exclude replays --exclude build/cases /verif/ $L/verif/
sed -i "s#=> /repo#=> $L/repo#" $L/verif/harness/go.mod
git -C $L/repo checkout -q -- . && git -C $L/repo apply /verif/seeded/$name/patch.diff || exit 1
for p in "$@"; do (cd $L/verif && VERIF_REPO=$L/repo timeout 1500 bin/check $p 2>/dev/null | grep -E "VIOLATION|KNOWN|BROKEN" | head -3; echo "$p rc=${PIPESTATUS[0]}"); done
git -C $L/repo checkout -q -- .
