#!/bin/bash
# tools/seed_regression_lanes.sh [lanes=4]  - the seed regression in parallel lanes.
# Each lane has its own clone of /repo (at HEAD, which must be clean) and its own copy of /verif whose harness module is
# pointed at that clone (go.mod replace + VERIF_REPO for the translator), so /repo itself is never touched.  Seeds of the
# properties that use live netlink sockets (C18) stay in one lane.  Output: /tmp/w/lanes/lane<k>.log, one line per seed
# and property as tools/seed_regression.sh prints them.
export GOFLAGS=-mod=mod GOPROXY=off GOSUMDB=off GOTOOLCHAIN=local
K=${1:-4}
L=/tmp/w/lanes
rm -rf $L; mkdir -p $L
[ -z "$(git -C /repo status --porcelain)" ] || { echo "/repo is not clean"; exit 1; }
ls /verif/seeded > $L/all.txt
grep '^C18' $L/all.txt > $L/seeds0.txt
grep -v '^C18' $L/all.txt | awk -v K=$K -v L=$L '{ print > (L "/part" (NR % K) ".txt") }'
for k in $(seq 0 $((K-1))); do
  [ $k -eq 0 ] && cat $L/part0.txt >> $L/seeds0.txt || cp $L/part$k.txt $L/seeds$k.txt
  git clone -q /repo $L/repo$k
  rsync -a --exclude .git --exclude replays --exclude build/cases /verif/ $L/verif$k/
  sed -i "s#=> /repo#=> $L/repo$k#" $L/verif$k/harness/go.mod
  (
    cd $L/verif$k
    export VERIF_REPO=$L/repo$k
    for name in $(cat $L/seeds$k.txt); do
      d=seeded/$name
      props=$(python3 -c "import json;print(' '.join(json.load(open('$d/meta.json')).get('detected_by',[])))" 2>/dev/null)
      [ -z "$props" ] && props=$(echo $name | cut -c1-3)
      git -C $VERIF_REPO apply /verif/$d/patch.diff || { echo "$name APPLY-FAILED"; git -C $VERIF_REPO checkout -- .; continue; }
      for p in $props; do
        out=$(timeout 1800 bin/check $p --tier quick 2>/dev/null | grep -E "VIOLATION|BROKEN" | head -2 | tr '\n' ' ')
        echo "$name $p viol=$(echo "$out" | grep -c VIOLATION) nofail=$(echo "$out" | grep -c no-failing-input-found) :: $(echo $out | cut -c1-150)"
      done
      git -C $VERIF_REPO checkout -- .
    done
    echo LANE-DONE
  ) > $L/lane$k.log 2>&1 &
done
wait
cat $L/lane*.log | grep -v LANE-DONE | sort > $L/all.log
echo "lines: $(wc -l < $L/all.log); missed: $(grep -c 'viol=0' $L/all.log); without input: $(grep -c 'nofail=1' $L/all.log)"
