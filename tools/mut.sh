#!/bin/sh
# tools/mut.sh <file-in-repo> <sed-expr> <prop>...   apply, run checks, restore
f=$1; e=$2; shift 2
cd /repo && sed -i "$e" "$f" && git diff --stat | tail -1
if [ -z "$(git diff --stat)" ]; then echo "NO CHANGE"; exit 1; fi
for p in "$@"; do (cd /verif && bin/check $p 2>/dev/null | grep -E "VIOLATION|KNOWN|BROKEN" | head -3; echo "$p rc=$?"); done
git -C /repo checkout -- .
